/-
C01 — Recursive crawl fetches every in-scope reachable URL exactly once, and
ends with every discovered URL in a final state.

Property theorems over the transition system `Wpull.Crawl` (helper lemmas are
in `Proofs/Lemmas/Crawl*.lean`).  They hold for every number of workers
(`conc`), every schedule (any sequence of enabled events = any order in which
the server answers and the workers run) and every site/filter instantiation
`Cfg.visit`.
-/
import Proofs.Lemmas.CrawlAcct
import Proofs.Lemmas.CrawlTerm
namespace Wpull.Crawl

variable {c : Cfg} {conc : Nat} {starts : List Url} {s : St}

/-! ## Property theorems -/

/-- **C01 (final states)** When the crawl has nothing left to do (no item in
flight, no to-do or error row), every URL it ever discovered is recorded as
done or skipped: none pending, none in progress.  Holds also for runs that were
killed and restarted (`k = true`). -/
theorem all_final (hw : c.WF) {k : Bool} (h : Reach c conc starts k s) (hq : quiescent s = true) :
    ∀ r ∈ s.table, r.status = .done ∨ r.status = .skipped := by
  have ha := reach_invA hw h
  simp only [quiescent, Bool.and_eq_true, Bool.not_eq_eq_eq_not, Bool.not_true, List.isEmpty_iff,
    Option.isNone_iff_eq_none] at hq
  obtain ⟨⟨hd, he⟩, hn⟩ := hq
  intro r hr
  have h1 := nextRow_none hn r hr
  have h2 : r.status ≠ .inProgress := by
    intro hs
    have := ha.progress hd r hr hs
    rw [he] at this; cases this
  cases hs : r.status <;> simp_all

/-- **C01 (at most once)** In a run without failing fetches no URL is handed to
a worker twice, whatever the schedule. -/
theorem visit_once (hn : c.NoFail) (h : Reach c conc starts false s) : (urls s.outs).Nodup :=
  (reach_outs_nodup hn h).1

/-- **C01 (request accounting)** At the end of a run the number of requests
seen for any URL `v` is exactly the number the handed-out visits prescribe:
nothing is requested outside a visit and no visit is replayed. -/
theorem request_accounting (hw : c.WF) (h : Reach c conc starts false s) (hq : quiescent s = true) (v : Url) :
    s.log.count v = sumOver (fun o => (c.visit o).requests.count v) s.outs := by
  have := reach_acct hw h v
  simp only [quiescent, Bool.and_eq_true, List.isEmpty_iff] at hq
  rw [hq.1.2] at this
  simpa using this

/-- A level-free scope: whether a URL is fetched depends on the URL alone
(`acc`), an accepted page is requested once (no redirect) and offers its links. -/
structure Simple (c : Cfg) (acc : Url → Bool) (links : Url → List Child) : Prop where
  visit_acc : ∀ r, acc r.url = true → c.visit r = ⟨[r.url], .done, links r.url⟩
  visit_rej : ∀ r, acc r.url = false → c.visit r = ⟨[], .skipped, []⟩

/-- URLs the crawl can discover: the start URLs and the links of accepted discovered pages -/
inductive Disc (starts : List Url) (acc : Url → Bool) (links : Url → List Child) : Url → Prop
  | start {u : Url} : u ∈ starts → Disc starts acc links u
  | link {p : Url} {k : Child} : Disc starts acc links p → acc p = true → k ∈ links p →
      Disc starts acc links k.url

theorem Simple.noFail {acc : Url → Bool} {links : Url → List Child} (hs : Simple c acc links) : c.NoFail := by
  intro r
  cases h : acc r.url
  · right; rw [hs.visit_rej r h]
  · left; rw [hs.visit_acc r h]

/-- every stored URL was discovered through accepted pages (all reachable states) -/
theorem table_sub_disc {acc : Url → Bool} {links : Url → List Child} (hs : Simple c acc links)
    {k : Bool} (h : Reach c conc starts k s) : ∀ u ∈ urls s.table, Disc starts acc links u := by
  have hw := hs.noFail.wf
  induction h with
  | init =>
    intro u hu
    obtain ⟨r, hr, e⟩ := mem_urls.mp hu
    rcases addMany_mem [] _ r hr with h | h
    · cases h
    · obtain ⟨w, hw', e'⟩ := List.mem_map.mp h.1
      subst e; subst e'; exact .start hw'
  | @step s s' e hr _ hst ih =>
    have ha := reach_invA hw hr
    cases e with
    | checkOut => obtain ⟨_, _, _, _, rfl⟩ := step_checkOut hst; simpa using ih
    | request u => obtain ⟨_, _, _, _, _, rfl⟩ := step_request hst; exact ih
    | flush u =>
      obtain ⟨r, _, hf, rfl⟩ := step_flush hst
      have hf' := findItem_some hf
      intro u hu
      obtain ⟨x, hx, e⟩ := mem_urls.mp hu
      rcases addMany_mem _ _ x hx with hx | hx
      · exact ih u (mem_urls.mpr ⟨x, hx, e⟩)
      · obtain ⟨kd, hk, e'⟩ := List.mem_map.mp hx.1
        have hrt := (ha.itemRow _ hf'.1).1
        have hdr : Disc starts acc links r.url := ih _ (mem_urls.mpr ⟨r, hrt, rfl⟩)
        cases hacc : acc r.url
        · rw [hs.visit_rej r hacc] at hk; cases hk
        · rw [hs.visit_acc r hacc] at hk
          subst e; subst e'
          exact .link hdr hacc hk
    | checkIn u => obtain ⟨_, _, _, rfl⟩ := step_checkIn hst; simpa using ih
    | crash => obtain ⟨_, rfl⟩ := step_crash hst; exact ih
    | restart =>
      obtain ⟨_, rfl⟩ := step_restart hst
      intro u hu
      obtain ⟨x, hx, e⟩ := mem_urls.mp hu
      rcases addMany_mem _ _ x hx with hx | hx
      · exact ih u (by simpa using mem_urls.mpr ⟨x, hx, e⟩)
      · obtain ⟨w, hw', e'⟩ := List.mem_map.mp hx.1
        subst e; subst e'; exact .start hw'

/-- at the end of a run, everything discoverable is in the table (any run, also with crashes) -/
theorem disc_sub_table {acc : Url → Bool} {links : Url → List Child} (hs : Simple c acc links)
    {k : Bool} (h : Reach c conc starts k s) (hq : quiescent s = true) :
    ∀ u, Disc starts acc links u → u ∈ urls s.table := by
  have hw := hs.noFail.wf
  have ha := reach_invA hw h
  have hb := reach_invB hw h
  have hfin := all_final hw h hq
  intro u hd
  induction hd with
  | start hu => exact hb.startsIn _ hu
  | @link p kd _ hacc hk ih =>
    obtain ⟨x, hx, e⟩ := mem_urls.mp ih
    have hxs := hfin x hx
    obtain ⟨o, ho, eo⟩ := hb.notTodoOut x hx (by rcases hxs with h | h <;> rw [h] <;> simp)
    rcases hb.kids o ho with hk' | ⟨y, hy, h1, _, _, _, h5⟩
    · have : acc o.url = true := by rw [eo, e]; exact hacc
      rw [hs.visit_acc o this] at hk'
      apply hk'.1
      rw [eo, e]; exact hk
    · have : y = x := row_unique ha.nodup hy hx (by rw [h1, eo])
      subst this
      rcases hxs with h | h <;> rcases h5 with h' | h' <;> rw [h] at h' <;> cases h'

theorem count_outs {acc : Url → Bool} {links : Url → List Child} (hs : Simple c acc links) (u : Url)
    (outs : List Row) (hn : (urls outs).Nodup) :
    sumOver (fun o => (c.visit o).requests.count u) outs = if u ∈ urls outs ∧ acc u = true then 1 else 0 := by
  induction outs with
  | nil => simp
  | cons o t ih =>
    simp only [urls_cons, List.nodup_cons] at hn
    simp only [sumOver_cons, ih hn.2, urls_cons, List.mem_cons]
    cases hacc : acc o.url
    · rw [hs.visit_rej o hacc]
      by_cases hu : u = o.url
      · subst hu; simp [hacc]
      · simp [hu]
    · rw [hs.visit_acc o hacc]
      by_cases hu : u = o.url
      · subst hu; simp [hacc, hn.1]
      · have : o.url ≠ u := fun e => hu e.symm
        simp [hu, this]

/-- **C01 (complete, exactly once, schedule independent)** For a level-free
scope, at the end of any crash-free run — any number of workers, any order of
answers — the table holds exactly the discoverable URLs, every one of them in
a final state, and each accepted discoverable URL has been requested exactly
once, every other URL never. -/
theorem complete_exactly_once {acc : Url → Bool} {links : Url → List Child} (hs : Simple c acc links)
    (h : Reach c conc starts false s) (hq : quiescent s = true) :
    (∀ u, u ∈ urls s.table ↔ Disc starts acc links u) ∧
    (∀ r ∈ s.table, r.status = .done ∨ r.status = .skipped) ∧
    (∀ u, (Disc starts acc links u ∧ acc u = true → s.log.count u = 1) ∧
          (¬ (Disc starts acc links u ∧ acc u = true) → s.log.count u = 0)) := by
  have hw := hs.noFail.wf
  have ha := reach_invA hw h
  have hb := reach_invB hw h
  have hfin := all_final hw h hq
  have hiff : ∀ u, u ∈ urls s.table ↔ Disc starts acc links u :=
    fun u => ⟨table_sub_disc hs h u, disc_sub_table hs h hq u⟩
  refine ⟨hiff, hfin, ?_⟩
  intro u
  rw [request_accounting hw h hq u, count_outs hs u s.outs (visit_once hs.noFail h)]
  have : u ∈ urls s.outs ↔ u ∈ urls s.table := by
    constructor
    · intro hu
      obtain ⟨o, ho, e⟩ := mem_urls.mp hu
      exact e ▸ (hb.outsIn o ho).1
    · intro hu
      obtain ⟨x, hx, e⟩ := mem_urls.mp hu
      obtain ⟨o, ho, eo⟩ := hb.notTodoOut x hx (by rcases hfin x hx with h | h <;> rw [h] <;> simp)
      exact mem_urls.mpr ⟨o, ho, by rw [eo, e]⟩
  have hcond : (u ∈ urls s.outs ∧ acc u = true) ↔ (Disc starts acc links u ∧ acc u = true) := by
    rw [this, hiff]
  constructor
  · intro hc; rw [if_pos (hcond.mpr hc)]
  · intro hc; rw [if_neg (fun h' => hc (hcond.mp h'))]

/-- **C01 (termination)** A failure-free crawl of a finite site always ends: if every offered link
lies in a finite universe `U` (the site's URLs) and a visit sends at most `R` requests, then EVERY
crash-free run — any number of workers, any schedule — has at most `(R + 3) · |U|` steps.  So the
crawl cannot run forever; when no step is enabled it is quiescent (`all_final`). -/
theorem terminates (hn : c.NoFail) (R : Nat) (hR : ∀ r, (c.visit r).requests.length ≤ R)
    (U : List Url) (hS : ∀ u ∈ starts, u ∈ U) (hK : ∀ r k, k ∈ (c.visit r).children → k.url ∈ U)
    (es : List Ev) (hes : ∀ e ∈ es, e ≠ .crash ∧ e ≠ .restart)
    (hrun : run c conc starts (init starts) es = some s) : es.length ≤ (R + 3) * U.length := by
  have hw := hn.wf
  have hN : ReachN c conc starts s (0 + es.length) := reachN_of_run es hes .init hrun
  have hreach := hN.reach
  have h1 := steps_account hw hN
  have h2 := log_length hw hreach
  have h3 : sumOver (fun o => (c.visit o).requests.length) s.outs ≤ R * s.outs.length :=
    sumOver_le _ R _ (fun o _ => hR o)
  have hb := reach_invB hw hreach
  have h4 : (urls s.outs).length ≤ U.length := by
    apply nodup_length_le _ _ (visit_once hn hreach)
    intro u hu
    obtain ⟨o, ho, e⟩ := mem_urls.mp hu
    exact table_sub_universe U hS hK hreach u (e ▸ (hb.outsIn o ho).1)
  have h5 : (urls s.outs).length = s.outs.length := by simp [urls]
  have h6 : s.log.length ≤ R * s.outs.length := by omega
  have h7 : es.length ≤ (R + 3) * s.outs.length := by
    rw [Nat.add_mul]; omega
  calc es.length ≤ (R + 3) * s.outs.length := h7
    _ ≤ (R + 3) * U.length := Nat.mul_le_mul_left _ (by omega)

/-! ## Non-vacuity: a concrete diamond site with a cycle, two workers -/

/-- site: 0 → {1, 2}, 1 → {3, 0}, 2 → {3}, 3 leaf; 4 is not accepted -/
def demoLinks : Url → List Child
  | 0 => [⟨1, false⟩, ⟨2, false⟩]
  | 1 => [⟨3, false⟩, ⟨0, false⟩, ⟨4, false⟩]
  | 2 => [⟨3, true⟩]
  | _ => []
def demoAcc (u : Url) : Bool := u != 4
def demoCfg : Cfg := { visit := fun r => if demoAcc r.url then ⟨[r.url], .done, demoLinks r.url⟩ else ⟨[], .skipped, []⟩ }

example : Simple demoCfg demoAcc demoLinks :=
  ⟨fun r h => by simp [demoCfg, h], fun r h => by simp [demoCfg, h]⟩

/-- a concrete interleaved run of two workers reaches a quiescent state with the expected log -/
example : (run demoCfg 4 [0] (init [0])
    [.checkOut, .request 0, .flush 0, .checkIn 0, .checkOut, .checkOut, .request 2, .request 1,
     .flush 2, .flush 1, .checkIn 1, .checkOut, .checkIn 2, .request 3, .flush 3, .checkOut,
     .flush 4, .checkIn 4, .checkIn 3]).map (fun s => (quiescent s, s.log)) = some (true, [0, 2, 1, 3]) := by
  decide

/-! ## Where the unrestricted statement fails (known findings, replayed on the real crawler)

The full property — exactly once for *every* scope — is not a theorem of the
model, because it is false of the code.  Two witnesses: -/

/-- the unrestricted claim: at the end of every crash-free run every URL was requested at most once -/
def C01_exactly_once_full : Prop :=
  ∀ (c : Cfg) (conc : Nat) (starts : List Url) (s : St), c.NoFail → Reach c conc starts false s →
    quiescent s = true → ∀ v, s.log.count v ≤ 1

/-- page 0 links to 1 and 2; 1 redirects to 2 (the session follows redirects itself and never
consults the table) -/
def redirCfg : Cfg := { visit := fun r =>
  match r.url with
  | 0 => ⟨[0], .done, [⟨1, false⟩, ⟨2, false⟩]⟩
  | 1 => ⟨[1, 2], .done, []⟩
  | _ => ⟨[r.url], .done, []⟩ }

theorem reach_of_run {c : Cfg} {conc : Nat} {starts : List Url} (es : List Ev)
    (hes : ∀ e ∈ es, e ≠ .crash ∧ e ≠ .restart) :
    ∀ {s s' : St}, Reach c conc starts false s → run c conc starts s es = some s' → Reach c conc starts false s' := by
  induction es with
  | nil => intro s s' h hr; simp [run] at hr; subst hr; exact h
  | cons e es ih =>
    intro s s' h hr
    simp only [run] at hr
    split at hr
    · cases hr
    · rename_i s1 hs1
      exact ih (fun e' he' => hes e' (List.mem_cons_of_mem _ he')) (.step h (fun _ => hes e List.mem_cons_self) hs1) hr

/-- **finding `dup-request/redirect-target`**: a redirect target that is also linked is requested twice. -/
theorem redirect_target_counterexample : ¬ C01_exactly_once_full := by
  intro hfull
  let es : List Ev := [.checkOut, .request 0, .flush 0, .checkIn 0, .checkOut, .request 1, .request 1,
    .flush 1, .checkIn 1, .checkOut, .request 2, .flush 2, .checkIn 2]
  have hrun : (run redirCfg 3 [0] (init [0]) es).isSome = true := by decide
  obtain ⟨s, hs⟩ := Option.isSome_iff_exists.mp hrun
  have hreach : Reach redirCfg 3 [0] false s := reach_of_run es (by decide) .init hs
  have hnf : redirCfg.NoFail := by
    intro r; simp only [redirCfg]; split <;> simp
  have hq : quiescent s = true := by
    have : (run redirCfg 3 [0] (init [0]) es).map quiescent = some true := by decide
    rw [hs] at this; simpa using this
  have hc : s.log.count 2 = 2 := by
    have : (run redirCfg 3 [0] (init [0]) es).map (fun s => s.log.count 2) = some 2 := by decide
    rw [hs] at this; simpa using this
  have := hfull redirCfg 3 [0] s hnf hreach hq 2
  omega

/-- depth limit 3 (links that would be stored deeper are not offered, as the scrape-time filter
does): 0 → {1, 2}; 1 → 4; 2 → 3; 3 → 4; 4 → 5. -/
def depthCfg : Cfg := { visit := fun r =>
  let kids : List Child := match r.url with
    | 0 => [⟨1, false⟩, ⟨2, false⟩]
    | 1 => [⟨4, false⟩]
    | 2 => [⟨3, false⟩]
    | 3 => [⟨4, false⟩]
    | 4 => [⟨5, false⟩]
    | _ => []
  ⟨[r.url], .done, if r.level + 1 ≤ 3 then kids else []⟩ }

/-- **finding `missing-url/depth-race`**: with a depth limit and two workers the set of requested
URLs depends on the schedule.  URL 4 is at depth 2 through page 1 and at depth 3 through page 3; it is
stored with the depth of whichever parent finishes first (a later add never lowers it), and its link
to URL 5 (true depth 3, in scope) is dropped when it was stored at depth 3. -/
theorem depth_race_counterexample :
    ∃ es₁ es₂ s₁ s₂, run depthCfg 4 [0] (init [0]) es₁ = some s₁ ∧ run depthCfg 4 [0] (init [0]) es₂ = some s₂ ∧
      quiescent s₁ = true ∧ quiescent s₂ = true ∧ 5 ∈ s₁.log ∧ 5 ∉ s₂.log := by
  let pre : List Ev := [.checkOut, .request 0, .flush 0, .checkIn 0, .checkOut, .checkOut, .request 1, .request 2,
    .flush 2, .checkIn 2, .checkOut, .request 3]
  let es₁ := pre ++ [.flush 1, .checkIn 1, .flush 3, .checkIn 3, .checkOut, .request 4, .flush 4, .checkIn 4,
    .checkOut, .request 5, .flush 5, .checkIn 5]
  let es₂ := pre ++ [.flush 3, .checkIn 3, .flush 1, .checkIn 1, .checkOut, .request 4, .flush 4, .checkIn 4]
  have h1 : (run depthCfg 4 [0] (init [0]) es₁).isSome = true := by decide
  have h2 : (run depthCfg 4 [0] (init [0]) es₂).isSome = true := by decide
  obtain ⟨s₁, hs₁⟩ := Option.isSome_iff_exists.mp h1
  obtain ⟨s₂, hs₂⟩ := Option.isSome_iff_exists.mp h2
  refine ⟨es₁, es₂, s₁, s₂, hs₁, hs₂, ?_, ?_, ?_, ?_⟩
  · have : (run depthCfg 4 [0] (init [0]) es₁).map quiescent = some true := by decide
    rw [hs₁] at this; simpa using this
  · have : (run depthCfg 4 [0] (init [0]) es₂).map quiescent = some true := by decide
    rw [hs₂] at this; simpa using this
  · have : (run depthCfg 4 [0] (init [0]) es₁).map (fun s => decide (5 ∈ s.log)) = some true := by decide
    rw [hs₁] at this; simpa using this
  · have : (run depthCfg 4 [0] (init [0]) es₂).map (fun s => decide (5 ∈ s.log)) = some false := by decide
    rw [hs₂] at this; simpa using this

/-- `-r -p --no-parent`: page 0 links the ordinary link 2 (outside the start directory) and page 1;
page 1 embeds 2 as a page requisite.  A row for 2 stored as an ordinary link is skipped; stored as a
requisite it is requested. -/
def shadowCfg : Cfg := { visit := fun r =>
  match r.url with
  | 0 => ⟨[0], .done, [⟨2, false⟩, ⟨1, false⟩]⟩
  | 1 => ⟨[1], .done, [⟨2, true⟩]⟩
  | 2 => if r.inline.isSome then ⟨[2], .done, []⟩ else ⟨[], .skipped, []⟩
  | _ => ⟨[], .skipped, []⟩ }

/-- **finding `missing-url/requisite-shadowed`**: one worker, no race.  URL 2 is a page requisite of
the fetched page 1 and is in scope as such (`visit` of its requisite row requests it), but the table keeps
the record of its first sighting - an out-of-scope ordinary link on page 0 - so it is never requested. -/
theorem requisite_shadowed_counterexample :
    ∃ es s, run shadowCfg 3 [0] (init [0]) es = some s ∧ quiescent s = true ∧ 1 ∈ s.log ∧ 2 ∉ s.log ∧
      (⟨2, true⟩ : Child) ∈ (shadowCfg.visit (startRow 1)).children ∧
      (shadowCfg.visit (childRow (startRow 1) ⟨2, true⟩)).requests = [2] := by
  let es : List Ev := [.checkOut, .request 0, .flush 0, .checkIn 0, .checkOut, .flush 2, .checkIn 2,
    .checkOut, .request 1, .flush 1, .checkIn 1]
  have h : (run shadowCfg 3 [0] (init [0]) es).isSome = true := by decide
  obtain ⟨s, hs⟩ := Option.isSome_iff_exists.mp h
  refine ⟨es, s, hs, ?_, ?_, ?_, by decide, by decide⟩
  · have : (run shadowCfg 3 [0] (init [0]) es).map quiescent = some true := by decide
    rw [hs] at this; simpa using this
  · have : (run shadowCfg 3 [0] (init [0]) es).map (fun s => decide (1 ∈ s.log)) = some true := by decide
    rw [hs] at this; simpa using this
  · have : (run shadowCfg 3 [0] (init [0]) es).map (fun s => decide (2 ∈ s.log)) = some false := by decide
    rw [hs] at this; simpa using this

end Wpull.Crawl
