/-
C01 — Recursive crawl fetches every in-scope reachable URL exactly once, and
ends with every discovered URL in a final state.

Property theorems over the transition system `Wpull.Crawl` (helper lemmas are
in `Proofs/Lemmas/Crawl*.lean`).  They hold for every number of workers
(`conc`), every schedule (any sequence of enabled events = any order in which
the server answers and the workers run) and every site/filter instantiation
`Cfg.visit`.
-/
import Proofs.Lemmas.CrawlAcct
import Proofs.Lemmas.CrawlTerm
import Proofs.Lemmas.CrawlKey
namespace Wpull.Crawl

variable {c : Cfg} {conc : Nat} {starts : List Url} {s : St}

/-! ## Property theorems -/

/-- **C01 (final states)** When the crawl has nothing left to do (no item in
flight, no to-do or error row), every URL it ever discovered is recorded as
done or skipped: none pending, none in progress.  Holds also for runs that were
killed and restarted (`k = true`). -/
theorem all_final (hw : c.WF) {k : Bool} (h : Reach c conc starts k s) (hq : quiescent s = true) :
    ∀ r ∈ s.table, r.status = .done ∨ r.status = .skipped := by
  have ha := reach_invA hw h
  simp only [quiescent, Bool.and_eq_true, Bool.not_eq_eq_eq_not, Bool.not_true, List.isEmpty_iff,
    Option.isNone_iff_eq_none] at hq
  obtain ⟨⟨hd, he⟩, hn⟩ := hq
  intro r hr
  have h1 := nextRow_none hn r hr
  have h2 : r.status ≠ .inProgress := by
    intro hs
    have := ha.progress hd r hr hs
    rw [he] at this; cases this
  cases hs : r.status <;> simp_all

/-- **C01 (at most once)** In a run without failing fetches no URL is handed to
a worker twice, whatever the schedule. -/
theorem visit_once (hn : c.NoFail) (h : Reach c conc starts false s) : (urls s.outs).Nodup :=
  (reach_outs_nodup hn h).1

/-- **C01 (request accounting)** At the end of a run the number of requests
seen for any URL `v` is exactly the number the handed-out visits prescribe:
nothing is requested outside a visit and no visit is replayed. -/
theorem request_accounting (hw : c.WF) (h : Reach c conc starts false s) (hq : quiescent s = true) (v : Url) :
    s.log.count v = sumOver (fun o => (c.visit o).requests.count v) s.outs := by
  have := reach_acct hw h v
  simp only [quiescent, Bool.and_eq_true, List.isEmpty_iff] at hq
  rw [hq.1.2] at this
  simpa using this

/-- A level-free scope: whether a URL is fetched depends on the URL alone
(`acc`), an accepted page is requested once (no redirect) and offers its links. -/
structure Simple (c : Cfg) (acc : Url → Bool) (links : Url → List Child) : Prop where
  visit_acc : ∀ r, acc r.url = true → c.visit r = ⟨[r.url], .done, links r.url⟩
  visit_rej : ∀ r, acc r.url = false → c.visit r = ⟨[], .skipped, []⟩

/-- URLs the crawl can discover: the start URLs and the links of accepted discovered pages -/
inductive Disc (starts : List Url) (acc : Url → Bool) (links : Url → List Child) : Url → Prop
  | start {u : Url} : u ∈ starts → Disc starts acc links u
  | link {p : Url} {k : Child} : Disc starts acc links p → acc p = true → k ∈ links p →
      Disc starts acc links k.url

theorem Simple.noFail {acc : Url → Bool} {links : Url → List Child} (hs : Simple c acc links) : c.NoFail := by
  intro r
  cases h : acc r.url
  · right; rw [hs.visit_rej r h]
  · left; rw [hs.visit_acc r h]

/-- every stored URL was discovered through accepted pages (all reachable states) -/
theorem table_sub_disc {acc : Url → Bool} {links : Url → List Child} (hs : Simple c acc links)
    {k : Bool} (h : Reach c conc starts k s) : ∀ u ∈ urls s.table, Disc starts acc links u := by
  have hw := hs.noFail.wf
  induction h with
  | init =>
    intro u hu
    obtain ⟨r, hr, e⟩ := mem_urls.mp hu
    rcases addMany_mem [] _ r hr with h | h
    · cases h
    · obtain ⟨w, hw', e'⟩ := List.mem_map.mp h.1
      subst e; subst e'; exact .start hw'
  | @step s s' e hr _ hst ih =>
    have ha := reach_invA hw hr
    cases e with
    | checkOut => obtain ⟨_, _, _, _, rfl⟩ := step_checkOut hst; simpa using ih
    | request u => obtain ⟨_, _, _, _, _, rfl⟩ := step_request hst; exact ih
    | flush u =>
      obtain ⟨r, _, hf, rfl⟩ := step_flush hst
      have hf' := findItem_some hf
      intro u hu
      obtain ⟨x, hx, e⟩ := mem_urls.mp hu
      rcases addMany_mem _ _ x hx with hx | hx
      · exact ih u (mem_urls.mpr ⟨x, hx, e⟩)
      · obtain ⟨kd, hk, e'⟩ := List.mem_map.mp hx.1
        have hrt := (ha.itemRow _ hf'.1).1
        have hdr : Disc starts acc links r.url := ih _ (mem_urls.mpr ⟨r, hrt, rfl⟩)
        cases hacc : acc r.url
        · rw [hs.visit_rej r hacc] at hk; cases hk
        · rw [hs.visit_acc r hacc] at hk
          subst e; subst e'
          exact .link hdr hacc hk
    | checkIn u => obtain ⟨_, _, _, rfl⟩ := step_checkIn hst; simpa using ih
    | crash => obtain ⟨_, rfl⟩ := step_crash hst; exact ih
    | restart =>
      obtain ⟨_, rfl⟩ := step_restart hst
      intro u hu
      obtain ⟨x, hx, e⟩ := mem_urls.mp hu
      rcases addMany_mem _ _ x hx with hx | hx
      · exact ih u (by simpa using mem_urls.mpr ⟨x, hx, e⟩)
      · obtain ⟨w, hw', e'⟩ := List.mem_map.mp hx.1
        subst e; subst e'; exact .start hw'

/-- at the end of a run, everything discoverable is in the table (any run, also with crashes) -/
theorem disc_sub_table {acc : Url → Bool} {links : Url → List Child} (hs : Simple c acc links)
    {k : Bool} (h : Reach c conc starts k s) (hq : quiescent s = true) :
    ∀ u, Disc starts acc links u → u ∈ urls s.table := by
  have hw := hs.noFail.wf
  have ha := reach_invA hw h
  have hb := reach_invB hw h
  have hfin := all_final hw h hq
  intro u hd
  induction hd with
  | start hu => exact hb.startsIn _ hu
  | @link p kd _ hacc hk ih =>
    obtain ⟨x, hx, e⟩ := mem_urls.mp ih
    have hxs := hfin x hx
    obtain ⟨o, ho, eo⟩ := hb.notTodoOut x hx (by rcases hxs with h | h <;> rw [h] <;> simp)
    rcases hb.kids o ho with hk' | ⟨y, hy, h1, _, _, _, h5⟩
    · have : acc o.url = true := by rw [eo, e]; exact hacc
      rw [hs.visit_acc o this] at hk'
      apply hk'.1
      rw [eo, e]; exact hk
    · have : y = x := row_unique ha.nodup hy hx (by rw [h1, eo])
      subst this
      rcases hxs with h | h <;> rcases h5 with h' | h' <;> rw [h] at h' <;> cases h'

theorem count_outs {acc : Url → Bool} {links : Url → List Child} (hs : Simple c acc links) (u : Url)
    (outs : List Row) (hn : (urls outs).Nodup) :
    sumOver (fun o => (c.visit o).requests.count u) outs = if u ∈ urls outs ∧ acc u = true then 1 else 0 := by
  induction outs with
  | nil => simp
  | cons o t ih =>
    simp only [urls_cons, List.nodup_cons] at hn
    simp only [sumOver_cons, ih hn.2, urls_cons, List.mem_cons]
    cases hacc : acc o.url
    · rw [hs.visit_rej o hacc]
      by_cases hu : u = o.url
      · subst hu; simp [hacc]
      · simp [hu]
    · rw [hs.visit_acc o hacc]
      by_cases hu : u = o.url
      · subst hu; simp [hacc, hn.1]
      · have : o.url ≠ u := fun e => hu e.symm
        simp [hu, this]

/-- **C01 (complete, exactly once, schedule independent)** For a level-free
scope, at the end of any crash-free run — any number of workers, any order of
answers — the table holds exactly the discoverable URLs, every one of them in
a final state, and each accepted discoverable URL has been requested exactly
once, every other URL never. -/
theorem complete_exactly_once {acc : Url → Bool} {links : Url → List Child} (hs : Simple c acc links)
    (h : Reach c conc starts false s) (hq : quiescent s = true) :
    (∀ u, u ∈ urls s.table ↔ Disc starts acc links u) ∧
    (∀ r ∈ s.table, r.status = .done ∨ r.status = .skipped) ∧
    (∀ u, (Disc starts acc links u ∧ acc u = true → s.log.count u = 1) ∧
          (¬ (Disc starts acc links u ∧ acc u = true) → s.log.count u = 0)) := by
  have hw := hs.noFail.wf
  have ha := reach_invA hw h
  have hb := reach_invB hw h
  have hfin := all_final hw h hq
  have hiff : ∀ u, u ∈ urls s.table ↔ Disc starts acc links u :=
    fun u => ⟨table_sub_disc hs h u, disc_sub_table hs h hq u⟩
  refine ⟨hiff, hfin, ?_⟩
  intro u
  rw [request_accounting hw h hq u, count_outs hs u s.outs (visit_once hs.noFail h)]
  have : u ∈ urls s.outs ↔ u ∈ urls s.table := by
    constructor
    · intro hu
      obtain ⟨o, ho, e⟩ := mem_urls.mp hu
      exact e ▸ (hb.outsIn o ho).1
    · intro hu
      obtain ⟨x, hx, e⟩ := mem_urls.mp hu
      obtain ⟨o, ho, eo⟩ := hb.notTodoOut x hx (by rcases hfin x hx with h | h <;> rw [h] <;> simp)
      exact mem_urls.mpr ⟨o, ho, by rw [eo, e]⟩
  have hcond : (u ∈ urls s.outs ∧ acc u = true) ↔ (Disc starts acc links u ∧ acc u = true) := by
    rw [this, hiff]
  constructor
  · intro hc; rw [if_pos (hcond.mpr hc)]
  · intro hc; rw [if_neg (fun h' => hc (hcond.mp h'))]

/-! ### scopes that depend on the record (depth limit, page requisites, `--no-parent`) -/

/-- A scope whose verdict and offered links may depend on the whole *record* of a row - its URL, its
depth and its requisite depth - as `LevelFilter`, `RecursiveFilter` and `ParentFilter` do; no redirects. -/
structure Scoped (c : Cfg) (acc : Row → Bool) (links : Row → List Child) : Prop where
  visit_acc : ∀ r, acc r = true → c.visit r = ⟨[r.url], .done, links r⟩
  visit_rej : ∀ r, acc r = false → c.visit r = ⟨[], .skipped, []⟩
  key_acc : ∀ a b, keyEq a b → acc a = acc b
  key_links : ∀ a b, keyEq a b → links a = links b

theorem Scoped.noFail {acc : Row → Bool} {links : Row → List Child} (hs : Scoped c acc links) : c.NoFail := by
  intro r
  cases h : acc r
  · right; rw [hs.visit_rej r h]
  · left; rw [hs.visit_acc r h]

open Classical in
theorem count_outs_rec {acc : Row → Bool} {links : Row → List Child} (hs : Scoped c acc links) (u : Url)
    (outs : List Row) (hn : (urls outs).Nodup) :
    sumOver (fun o => (c.visit o).requests.count u) outs =
      if ∃ o ∈ outs, o.url = u ∧ acc o = true then 1 else 0 := by
  induction outs with
  | nil => simp
  | cons o t ih =>
    simp only [urls_cons, List.nodup_cons] at hn
    rw [sumOver_cons, ih hn.2]
    cases hacc : acc o
    · rw [hs.visit_rej o hacc]
      have : (∃ o' ∈ o :: t, o'.url = u ∧ acc o' = true) ↔ (∃ o' ∈ t, o'.url = u ∧ acc o' = true) := by
        constructor
        · rintro ⟨o', ho', h1, h2⟩
          rcases List.mem_cons.mp ho' with rfl | ho'
          · rw [hacc] at h2; cases h2
          · exact ⟨o', ho', h1, h2⟩
        · rintro ⟨o', ho', h1, h2⟩; exact ⟨o', List.mem_cons_of_mem _ ho', h1, h2⟩
      simp only [List.count_nil, Nat.zero_add, this]
    · rw [hs.visit_acc o hacc]
      by_cases hu : o.url = u
      · have hno : ¬ ∃ o' ∈ t, o'.url = u ∧ acc o' = true := by
          rintro ⟨o', ho', h1, _⟩
          exact hn.1 (mem_urls.mpr ⟨o', ho', h1.trans hu.symm⟩)
        have hyes : ∃ o' ∈ o :: t, o'.url = u ∧ acc o' = true := ⟨o, List.mem_cons_self, hu, hacc⟩
        rw [if_neg hno, if_pos hyes]
        simp [hu]
      · have : (∃ o' ∈ o :: t, o'.url = u ∧ acc o' = true) ↔ (∃ o' ∈ t, o'.url = u ∧ acc o' = true) := by
          constructor
          · rintro ⟨o', ho', h1, h2⟩
            rcases List.mem_cons.mp ho' with rfl | ho'
            · exact absurd h1 hu
            · exact ⟨o', ho', h1, h2⟩
          · rintro ⟨o', ho', h1, h2⟩; exact ⟨o', List.mem_cons_of_mem _ ho', h1, h2⟩
        have hc : List.count u [o.url] = 0 := by simp [hu]
        simp only [hc, Nat.zero_add, this]

/-- every final row was handed out with exactly the record it is stored with -/
theorem out_of_final_row (hw : c.WF) {k : Bool} (h : Reach c conc starts k s) {x : Row} (hx : x ∈ s.table)
    (hfin : x.status = .done ∨ x.status = .skipped) : ∃ o ∈ s.outs, keyEq x o := by
  have ha := reach_invA hw h
  have hb := reach_invB hw h
  have hc := reach_invC hw h
  obtain ⟨o, ho, eo⟩ := hb.notTodoOut x hx (by rcases hfin with h | h <;> rw [h] <;> simp)
  obtain ⟨r, hr, hk⟩ := hc.outKey o ho
  have : r = x := row_unique ha.nodup hr hx (hk.1.trans eo)
  subst this
  exact ⟨o, ho, hk⟩

open Classical in
/-- **C01 (what the crawl computes when the scope depends on depth / requisite-ness)**  For every
record-dependent scope, at the end of any crash-free run - any number of workers, any order of answers -
the table is *closed under the links of its accepted STORED records*: every row is final; a row is
requested exactly once if its stored record is in scope and never otherwise; every link of an accepted
stored record is in the table; every row is a start URL or was offered by an accepted stored record,
with the child record of that parent; nothing outside the table is ever requested.
This is the exact sense in which "the first record wins": the stored record of a URL - not its best
one - decides (findings `missing-url/depth-race` and `missing-url/requisite-shadowed`); for a scope that
does not look at the record it is `complete_exactly_once`. -/
theorem closure_of_stored_records {acc : Row → Bool} {links : Row → List Child} (hs : Scoped c acc links)
    (h : Reach c conc starts false s) (hq : quiescent s = true) :
    (∀ r ∈ s.table, r.status = .done ∨ r.status = .skipped) ∧
    (∀ u ∈ starts, u ∈ urls s.table) ∧
    (∀ x ∈ s.table, acc x = true → ∀ k ∈ links x, k.url ∈ urls s.table) ∧
    (∀ x ∈ s.table, (x.url ∈ starts ∧ x.level = 0 ∧ x.inline = none) ∨
        ∃ p ∈ s.table, acc p = true ∧ ∃ k ∈ links p, keyEq x (childRow p k)) ∧
    (∀ x ∈ s.table, s.log.count x.url = if acc x = true then 1 else 0) ∧
    (∀ u, u ∉ urls s.table → s.log.count u = 0) := by
  have hw := hs.noFail.wf
  have ha := reach_invA hw h
  have hb := reach_invB hw h
  have hc := reach_invC hw h
  have hfin := all_final hw h hq
  refine ⟨hfin, hb.startsIn, ?_, ?_, ?_, ?_⟩
  · -- closure
    intro x hx hacc k hk
    obtain ⟨o, ho, hko⟩ := out_of_final_row hw h hx (hfin x hx)
    have hacco : acc o = true := by rw [← hs.key_acc x o hko]; exact hacc
    rcases hb.kids o ho with hk' | ⟨y, hy, h1, _, _, _, h5⟩
    · rw [hs.visit_acc o hacco] at hk'
      apply hk'.1
      rw [← hs.key_links x o hko]; exact hk
    · have : y = x := row_unique ha.nodup hy hx (h1.trans hko.1.symm)
      subst this
      rcases hfin y hy with h | h <;> rcases h5 with h' | h' <;> rw [h] at h' <;> cases h'
  · -- provenance
    intro x hx
    rcases hc.prov x hx with hp | ⟨o, ho, k, hk, hkx⟩
    · exact Or.inl hp
    · right
      obtain ⟨p, hp, hkp⟩ := hc.outKey o ho
      cases hacco : acc o
      · rw [hs.visit_rej o hacco] at hk; cases hk
      · rw [hs.visit_acc o hacco] at hk
        refine ⟨p, hp, by rw [hs.key_acc p o hkp]; exact hacco, k, ?_, hkx.trans (keyEq_childRow hkp k).symm⟩
        rw [hs.key_links p o hkp]; exact hk
  · -- exactly once / never, by the stored record
    intro x hx
    rw [request_accounting hw h hq x.url, count_outs_rec hs x.url s.outs (visit_once hs.noFail h)]
    obtain ⟨o, ho, hko⟩ := out_of_final_row hw h hx (hfin x hx)
    have hiff : (∃ o' ∈ s.outs, o'.url = x.url ∧ acc o' = true) ↔ acc x = true := by
      constructor
      · rintro ⟨o', ho', h1, h2⟩
        obtain ⟨r, hr, hk⟩ := hc.outKey o' ho'
        have : r = x := row_unique ha.nodup hr hx (hk.1.trans h1)
        subst this
        rw [hs.key_acc r o' hk]; exact h2
      · intro hacc
        exact ⟨o, ho, hko.1.symm, by rw [← hs.key_acc x o hko]; exact hacc⟩
    by_cases hacc : acc x = true
    · rw [if_pos (hiff.mpr hacc), if_pos hacc]
    · rw [if_neg (fun h' => hacc (hiff.mp h')), if_neg hacc]
  · -- nothing outside the table
    intro u hu
    rw [request_accounting hw h hq u, count_outs_rec hs u s.outs (visit_once hs.noFail h)]
    rw [if_neg]
    rintro ⟨o, ho, h1, _⟩
    exact hu (h1 ▸ (hb.outsIn o ho).1)

/-- **C01 (termination)** A failure-free crawl of a finite site always ends: if every offered link
lies in a finite universe `U` (the site's URLs) and a visit sends at most `R` requests, then EVERY
crash-free run — any number of workers, any schedule — has at most `(R + 3) · |U|` steps.  So the
crawl cannot run forever; when no step is enabled it is quiescent (`all_final`). -/
theorem terminates (hn : c.NoFail) (R : Nat) (hR : ∀ r, (c.visit r).requests.length ≤ R)
    (U : List Url) (hS : ∀ u ∈ starts, u ∈ U) (hK : ∀ r k, k ∈ (c.visit r).children → k.url ∈ U)
    (es : List Ev) (hes : ∀ e ∈ es, e ≠ .crash ∧ e ≠ .restart)
    (hrun : run c conc starts (init starts) es = some s) : es.length ≤ (R + 3) * U.length := by
  have hw := hn.wf
  have hN : ReachN c conc starts s (0 + es.length) := reachN_of_run es hes .init hrun
  have hreach := hN.reach
  have h1 := steps_account hw hN
  have h2 := log_length hw hreach
  have h3 : sumOver (fun o => (c.visit o).requests.length) s.outs ≤ R * s.outs.length :=
    sumOver_le _ R _ (fun o _ => hR o)
  have hb := reach_invB hw hreach
  have h4 : (urls s.outs).length ≤ U.length := by
    apply nodup_length_le _ _ (visit_once hn hreach)
    intro u hu
    obtain ⟨o, ho, e⟩ := mem_urls.mp hu
    exact table_sub_universe U hS hK hreach u (e ▸ (hb.outsIn o ho).1)
  have h5 : (urls s.outs).length = s.outs.length := by simp [urls]
  have h6 : s.log.length ≤ R * s.outs.length := by omega
  have h7 : es.length ≤ (R + 3) * s.outs.length := by
    rw [Nat.add_mul]; omega
  calc es.length ≤ (R + 3) * s.outs.length := h7
    _ ≤ (R + 3) * U.length := Nat.mul_le_mul_left _ (by omega)

/-! ## Non-vacuity: a concrete diamond site with a cycle, two workers -/

/-- site: 0 → {1, 2}, 1 → {3, 0}, 2 → {3}, 3 leaf; 4 is not accepted -/
def demoLinks : Url → List Child
  | 0 => [⟨1, false⟩, ⟨2, false⟩]
  | 1 => [⟨3, false⟩, ⟨0, false⟩, ⟨4, false⟩]
  | 2 => [⟨3, true⟩]
  | _ => []
def demoAcc (u : Url) : Bool := u != 4
def demoCfg : Cfg := { visit := fun r => if demoAcc r.url then ⟨[r.url], .done, demoLinks r.url⟩ else ⟨[], .skipped, []⟩ }

example : Simple demoCfg demoAcc demoLinks :=
  ⟨fun r h => by simp [demoCfg, h], fun r h => by simp [demoCfg, h]⟩

/-- a concrete interleaved run of two workers reaches a quiescent state with the expected log -/
example : (run demoCfg 4 [0] (init [0])
    [.checkOut, .request 0, .flush 0, .checkIn 0, .checkOut, .checkOut, .request 2, .request 1,
     .flush 2, .flush 1, .checkIn 1, .checkOut, .checkIn 2, .request 3, .flush 3, .checkOut,
     .flush 4, .checkIn 4, .checkIn 3]).map (fun s => (quiescent s, s.log)) = some (true, [0, 2, 1, 3]) := by
  decide

/-! ## Where the unrestricted statement fails (known findings, replayed on the real crawler)

The full property — exactly once for *every* scope — is not a theorem of the
model, because it is false of the code.  Two witnesses: -/

/-- the unrestricted claim: at the end of every crash-free run every URL was requested at most once -/
def C01_exactly_once_full : Prop :=
  ∀ (c : Cfg) (conc : Nat) (starts : List Url) (s : St), c.NoFail → Reach c conc starts false s →
    quiescent s = true → ∀ v, s.log.count v ≤ 1

/-- page 0 links to 1 and 2; 1 redirects to 2 (the session follows redirects itself and never
consults the table) -/
def redirCfg : Cfg := { visit := fun r =>
  match r.url with
  | 0 => ⟨[0], .done, [⟨1, false⟩, ⟨2, false⟩]⟩
  | 1 => ⟨[1, 2], .done, []⟩
  | _ => ⟨[r.url], .done, []⟩ }

theorem reach_of_run {c : Cfg} {conc : Nat} {starts : List Url} (es : List Ev)
    (hes : ∀ e ∈ es, e ≠ .crash ∧ e ≠ .restart) :
    ∀ {s s' : St}, Reach c conc starts false s → run c conc starts s es = some s' → Reach c conc starts false s' := by
  induction es with
  | nil => intro s s' h hr; simp [run] at hr; subst hr; exact h
  | cons e es ih =>
    intro s s' h hr
    simp only [run] at hr
    split at hr
    · cases hr
    · rename_i s1 hs1
      exact ih (fun e' he' => hes e' (List.mem_cons_of_mem _ he')) (.step h (fun _ => hes e List.mem_cons_self) hs1) hr

/-- **finding `dup-request/redirect-target`**: a redirect target that is also linked is requested twice. -/
theorem redirect_target_counterexample : ¬ C01_exactly_once_full := by
  intro hfull
  let es : List Ev := [.checkOut, .request 0, .flush 0, .checkIn 0, .checkOut, .request 1, .request 1,
    .flush 1, .checkIn 1, .checkOut, .request 2, .flush 2, .checkIn 2]
  have hrun : (run redirCfg 3 [0] (init [0]) es).isSome = true := by decide
  obtain ⟨s, hs⟩ := Option.isSome_iff_exists.mp hrun
  have hreach : Reach redirCfg 3 [0] false s := reach_of_run es (by decide) .init hs
  have hnf : redirCfg.NoFail := by
    intro r; simp only [redirCfg]; split <;> simp
  have hq : quiescent s = true := by
    have : (run redirCfg 3 [0] (init [0]) es).map quiescent = some true := by decide
    rw [hs] at this; simpa using this
  have hc : s.log.count 2 = 2 := by
    have : (run redirCfg 3 [0] (init [0]) es).map (fun s => s.log.count 2) = some 2 := by decide
    rw [hs] at this; simpa using this
  have := hfull redirCfg 3 [0] s hnf hreach hq 2
  omega

/-- depth limit 3 (links that would be stored deeper are not offered, as the scrape-time filter
does): 0 → {1, 2}; 1 → 4; 2 → 3; 3 → 4; 4 → 5. -/
def depthCfg : Cfg := { visit := fun r =>
  let kids : List Child := match r.url with
    | 0 => [⟨1, false⟩, ⟨2, false⟩]
    | 1 => [⟨4, false⟩]
    | 2 => [⟨3, false⟩]
    | 3 => [⟨4, false⟩]
    | 4 => [⟨5, false⟩]
    | _ => []
  ⟨[r.url], .done, if r.level + 1 ≤ 3 then kids else []⟩ }

/-- **finding `missing-url/depth-race`**: with a depth limit and two workers the set of requested
URLs depends on the schedule.  URL 4 is at depth 2 through page 1 and at depth 3 through page 3; it is
stored with the depth of whichever parent finishes first (a later add never lowers it), and its link
to URL 5 (true depth 3, in scope) is dropped when it was stored at depth 3. -/
theorem depth_race_counterexample :
    ∃ es₁ es₂ s₁ s₂, run depthCfg 4 [0] (init [0]) es₁ = some s₁ ∧ run depthCfg 4 [0] (init [0]) es₂ = some s₂ ∧
      quiescent s₁ = true ∧ quiescent s₂ = true ∧ 5 ∈ s₁.log ∧ 5 ∉ s₂.log := by
  let pre : List Ev := [.checkOut, .request 0, .flush 0, .checkIn 0, .checkOut, .checkOut, .request 1, .request 2,
    .flush 2, .checkIn 2, .checkOut, .request 3]
  let es₁ := pre ++ [.flush 1, .checkIn 1, .flush 3, .checkIn 3, .checkOut, .request 4, .flush 4, .checkIn 4,
    .checkOut, .request 5, .flush 5, .checkIn 5]
  let es₂ := pre ++ [.flush 3, .checkIn 3, .flush 1, .checkIn 1, .checkOut, .request 4, .flush 4, .checkIn 4]
  have h1 : (run depthCfg 4 [0] (init [0]) es₁).isSome = true := by decide
  have h2 : (run depthCfg 4 [0] (init [0]) es₂).isSome = true := by decide
  obtain ⟨s₁, hs₁⟩ := Option.isSome_iff_exists.mp h1
  obtain ⟨s₂, hs₂⟩ := Option.isSome_iff_exists.mp h2
  refine ⟨es₁, es₂, s₁, s₂, hs₁, hs₂, ?_, ?_, ?_, ?_⟩
  · have : (run depthCfg 4 [0] (init [0]) es₁).map quiescent = some true := by decide
    rw [hs₁] at this; simpa using this
  · have : (run depthCfg 4 [0] (init [0]) es₂).map quiescent = some true := by decide
    rw [hs₂] at this; simpa using this
  · have : (run depthCfg 4 [0] (init [0]) es₁).map (fun s => decide (5 ∈ s.log)) = some true := by decide
    rw [hs₁] at this; simpa using this
  · have : (run depthCfg 4 [0] (init [0]) es₂).map (fun s => decide (5 ∈ s.log)) = some false := by decide
    rw [hs₂] at this; simpa using this

/-- `-r -p --no-parent`: page 0 links the ordinary link 2 (outside the start directory) and page 1;
page 1 embeds 2 as a page requisite.  A row for 2 stored as an ordinary link is skipped; stored as a
requisite it is requested. -/
def shadowCfg : Cfg := { visit := fun r =>
  match r.url with
  | 0 => ⟨[0], .done, [⟨2, false⟩, ⟨1, false⟩]⟩
  | 1 => ⟨[1], .done, [⟨2, true⟩]⟩
  | 2 => if r.inline.isSome then ⟨[2], .done, []⟩ else ⟨[], .skipped, []⟩
  | _ => ⟨[], .skipped, []⟩ }

/-- **finding `missing-url/requisite-shadowed`**: one worker, no race.  URL 2 is a page requisite of
the fetched page 1 and is in scope as such (`visit` of its requisite row requests it), but the table keeps
the record of its first sighting - an out-of-scope ordinary link on page 0 - so it is never requested. -/
theorem requisite_shadowed_counterexample :
    ∃ es s, run shadowCfg 3 [0] (init [0]) es = some s ∧ quiescent s = true ∧ 1 ∈ s.log ∧ 2 ∉ s.log ∧
      (⟨2, true⟩ : Child) ∈ (shadowCfg.visit (startRow 1)).children ∧
      (shadowCfg.visit (childRow (startRow 1) ⟨2, true⟩)).requests = [2] := by
  let es : List Ev := [.checkOut, .request 0, .flush 0, .checkIn 0, .checkOut, .flush 2, .checkIn 2,
    .checkOut, .request 1, .flush 1, .checkIn 1]
  have h : (run shadowCfg 3 [0] (init [0]) es).isSome = true := by decide
  obtain ⟨s, hs⟩ := Option.isSome_iff_exists.mp h
  refine ⟨es, s, hs, ?_, ?_, ?_, by decide, by decide⟩
  · have : (run shadowCfg 3 [0] (init [0]) es).map quiescent = some true := by decide
    rw [hs] at this; simpa using this
  · have : (run shadowCfg 3 [0] (init [0]) es).map (fun s => decide (1 ∈ s.log)) = some true := by decide
    rw [hs] at this; simpa using this
  · have : (run shadowCfg 3 [0] (init [0]) es).map (fun s => decide (2 ∈ s.log)) = some false := by decide
    rw [hs] at this; simpa using this

/-- the scope of the requisite-shadowed finding is a record-dependent scope in the sense of `Scoped`
(non-vacuity of `closure_of_stored_records`): URL 2 is accepted only with a requisite record -/
def shadowAcc (r : Row) : Bool := r.url == 0 || r.url == 1 || (r.url == 2 && r.inline.isSome)
def shadowLinks (r : Row) : List Child :=
  if r.url == 0 then [⟨2, false⟩, ⟨1, false⟩] else if r.url == 1 then [⟨2, true⟩] else []

theorem shadow_scoped : Scoped shadowCfg shadowAcc shadowLinks where
  visit_acc := by
    intro r h
    rcases r with ⟨u, st, l, i, t⟩
    simp only [shadowAcc, Bool.or_eq_true, Bool.and_eq_true, beq_iff_eq] at h
    rcases h with (h | h) | h
    · subst h; rfl
    · subst h; rfl
    · obtain ⟨h, hi⟩ := h; subst h
      simp [shadowCfg, shadowLinks, hi]
  visit_rej := by
    intro r h
    rcases r with ⟨u, st, l, i, t⟩
    simp only [shadowAcc, Bool.or_eq_false_iff, Bool.and_eq_false_iff, beq_eq_false_iff_ne] at h
    obtain ⟨⟨h0, h1⟩, h2⟩ := h
    simp only [shadowCfg]
    match u, h0, h1, h2 with
    | 0, h0, _, _ => exact absurd rfl h0
    | 1, _, h1, _ => exact absurd rfl h1
    | 2, _, _, h2 =>
      rcases h2 with h2 | h2
      · exact absurd rfl h2
      · simp at h2; simp [h2]
    | (n + 3), _, _, _ => rfl
  key_acc := by
    intro a b h
    simp [shadowAcc, h.1, h.2.2]
  key_links := by
    intro a b h
    simp [shadowLinks, h.1]

end Wpull.Crawl
