/-
C10 — composition of the component theorems into whole-URL statements:
`norm_reparse` and `norm_idem` (section "Property theorems" at the end).
Helper lemmas first.  Uses Proofs/C10.lean (components), Proofs/C11.lean
(`netScheme_some`), Proofs/Lemmas/{Split,PathEnc,Port,Flatten,Ipv4}.lean.
-/
import Proofs.C10
import Proofs.C11
import Proofs.Lemmas.Split
namespace Wpull.Url
open Wpull

/-! ## inversion: what a successful parse of a network URL was built from -/

/-- success of `parseNet` from the success of its parts (forward direction) -/
theorem parseNet_of_parts (c : Cfg) (url scheme rem0 : Str) (dp : Nat)
    {hn : Str} {port0 : Option Nat} {np nq nf a b : Str}
    (rp : RemParts) (hrp : splitRem (if startsWith rem0 [47, 47] then rem0.drop 2 else rem0) = rp)
    (hhost : parseHost c (parseAuthority rp.authority).2 = .ok (hn, port0))
    (hne : hn.isEmpty = false)
    (hpath : normalizePath c rp.path = .ok np)
    (hquery : normalizeQuery c rp.query = .ok nq)
    (hfrag : normalizeFragment c rp.fragment = .ok nf)
    (hun : normalizeUsername (percentDecode c (parseUserinfo (parseAuthority rp.authority).1).1) = .ok a)
    (hpw : normalizePassword (percentDecode c (parseUserinfo (parseAuthority rp.authority).1).2) = .ok b) :
    parseNet c url scheme rem0 dp =
      .ok { raw := url, scheme := some scheme, authority := some rp.authority,
            path := some np, query := some nq, fragment := some nf,
            userinfo := some (parseAuthority rp.authority).1,
            username := some (percentDecode c (parseUserinfo (parseAuthority rp.authority).1).1),
            password := some (percentDecode c (parseUserinfo (parseAuthority rp.authority).1).2),
            host := some (parseAuthority rp.authority).2, hostname := some hn,
            port := some (match port0 with
                          | some p => if p == 0 then dp else p
                          | none => dp),
            resource := some rp.resource } := by
  unfold parseNet
  cases port0 <;>
    simp only [hrp, hhost, hne, hpath, hquery, hfrag, hun, hpw, Bool.false_eq_true, if_false]

/-- inversion of `parseNet` -/
theorem parseNet_inv {c : Cfg} {url scheme rem0 : Str} {dp : Nat} {i : URLInfo}
    (h : parseNet c url scheme rem0 dp = .ok i) :
    ∃ (host hn un pw p1 q1 path query : Str) (port0 : Option Nat) (a b : Str),
      i.scheme = some scheme ∧ i.username = some un ∧ i.password = some pw ∧
      i.host = some host ∧ i.hostname = some hn ∧
      i.port = some (match port0 with
                     | some p => if p == 0 then dp else p
                     | none => dp) ∧
      i.path = some path ∧ i.query = some query ∧
      parseHost c host = .ok (hn, port0) ∧ hn.isEmpty = false ∧
      normalizePath c p1 = .ok path ∧ normalizeQuery c q1 = .ok query ∧
      normalizeUsername un = .ok a ∧ normalizePassword pw = .ok b := by
  unfold parseNet at h
  simp only at h
  split at h
  · cases h
  · rename_i hostname port hph
    split at h
    · cases h
    · rename_i hne
      split at h
      · cases h
      · rename_i np hnp
        split at h
        · cases h
        · rename_i nq hnq
          split at h
          · cases h
          · split at h
            · cases h
            · rename_i a ha
              split at h
              · cases h
              · rename_i b hb
                cases h
                exact ⟨_, hostname, _, _, _, _, np, nq, port, a, b, rfl, rfl, rfl, rfl, rfl, rfl, rfl, rfl,
                  hph, by simpa using hne, hnp, hnq, ha, hb⟩

/-- inversion of `parse` for a result with a network scheme -/
theorem parse_net_inv {c : Cfg} {s : Str} {i : URLInfo} {sch : Str} {dp : Nat}
    (h : parse c s = .ok i) (hnet : netScheme? i.scheme = some (sch, dp)) :
    ∃ (host hn un pw p1 q1 path query : Str) (port0 : Option Nat) (a b : Str),
      i.scheme = some sch ∧ i.username = some un ∧ i.password = some pw ∧
      i.host = some host ∧ i.hostname = some hn ∧
      i.port = some (match port0 with
                     | some p => if p == 0 then dp else p
                     | none => dp) ∧
      i.path = some path ∧ i.query = some query ∧
      parseHost c host = .ok (hn, port0) ∧ hn.isEmpty = false ∧
      normalizePath c p1 = .ok path ∧ normalizeQuery c q1 = .ok query ∧
      normalizeUsername un = .ok a ∧ normalizePassword pw = .ok b := by
  unfold parse at h
  simp only at h
  split at h
  · cases h
  · split at h
    · cases h
    · split at h
      · -- not a network scheme: contradiction with hnet
        rename_i s2 _ hb
        cases h
        simp only at hnet
        rw [hb] at hnet; cases hnet
      · rename_i s2 _ sch' dp' hb
        have hinv := parseNet_inv h
        obtain ⟨host, hn, un, pw, p1, q1, path, query, port0, a, b, hs, rest⟩ := hinv
        rw [hs] at hnet
        have h1 := netScheme_some hb
        have h2 := netScheme_some hnet
        have : sch' = sch := by
          have := h2.1; simpa using this
        subst this
        have hdp : dp' = dp := by
          have := h1.2; rw [h2.2] at this; simpa using this.symm
        subst hdp
        exact ⟨host, hn, un, pw, p1, q1, path, query, port0, a, b, hs, rest⟩

/-! ## the URL is a function of eight attributes -/

theorem url_congr {i j : URLInfo} (h1 : j.scheme = i.scheme) (h2 : j.username = i.username)
    (h3 : j.password = i.password) (h4 : j.hostname = i.hostname) (h5 : j.isIPv6 = i.isIPv6)
    (h6 : j.port = i.port) (h7 : j.path = i.path) (h8 : j.query = i.query)
    (hraw : netScheme? i.scheme ≠ none) : j.url = i.url := by
  unfold URLInfo.url
  rw [h1, h2, h3, h4, h5, h6, h7, h8]
  cases hn : netScheme? i.scheme with
  | none => exact absurd hn hraw
  | some p => rfl

/-! ## host part -/

theorem rpartition1_notfound {c : Nat} {s : List Nat} (h : (rpartition1 c s).2.1 = false) :
    (rpartition1 c s).2.2 = s := by
  unfold rpartition1 at h ⊢
  simp only at h ⊢
  split
  · rename_i hf; rw [if_pos hf] at h; cases h
  · rfl

theorem startsWith_append_colon (a b : List Nat) : startsWith (a ++ 58 :: b) [91] = startsWith a [91] := by
  cases a with
  | nil => simp [startsWith]
  | cons x t => simp [startsWith]

/-- inversion of `parse_host` -/
theorem parseHost_inv {c : Cfg} {host hn : Str} {port0 : Option Nat}
    (h : parseHost c host = .ok (hn, port0)) :
    ∃ arg, parseHostname c arg = .ok hn ∧ startsWith host [91] = startsWith arg [91] ∧
      ∀ p, port0 = some p → p < 65536 := by
  unfold parseHost at h
  split at h
  · split at h
    · cases h
    · rename_i x hx; cases h
      exact ⟨host, hx, rfl, fun p hp => by cases hp⟩
  · simp only at h
    split at h
    · rename_i hfound
      split at h
      · cases h
      · rename_i pv hpv
        split at h
        · cases h
        · rename_i hrange
          split at h
          · cases h
          · rename_i x hx
            cases h
            refine ⟨(rpartition1 58 host).1, hx, ?_, ?_⟩
            · have := rpartition1_found hfound
              conv => lhs; rw [this]
              exact startsWith_append_colon _ _
            · intro p hp
              cases hp
              simp only [Bool.or_eq_true, decide_eq_true_eq, not_or, Int.not_lt] at hrange
              omega
    · rename_i hnf
      split at h
      · cases h
      · rename_i x hx
        cases h
        have hnf' : (rpartition1 58 host).2.1 = false := by simpa using hnf
        rw [rpartition1_notfound hnf'] at hx
        exact ⟨host, hx, rfl, fun p hp => by cases hp⟩

theorem endsWith_none {s : List Nat} {x : Nat} (h : x ∉ s) : endsWith s [x] = false := by
  unfold endsWith
  cases hr : s.reverse with
  | nil => simp [startsWith]
  | cons a t =>
    have ha : a ∈ s := by
      have : a ∈ s.reverse := by rw [hr]; simp
      simpa using this
    have : a ≠ x := fun e => h (e ▸ ha)
    simp [startsWith, this]

theorem endsWith_snoc (a : List Nat) (x : Nat) : endsWith (a ++ [x]) [x] = true := by
  unfold endsWith
  simp [startsWith]

/-- characters the forbidden-character test removes -/
theorem not_forbidden {hn : Str} (h : ∀ x ∈ hn, forbiddenHost.contains x = false) :
    35 ∉ hn ∧ 37 ∉ hn ∧ 47 ∉ hn ∧ 58 ∉ hn ∧ 63 ∉ hn ∧ 64 ∉ hn ∧ 91 ∉ hn ∧ 93 ∉ hn ∧ 32 ∉ hn := by
  refine ⟨?_, ?_, ?_, ?_, ?_, ?_, ?_, ?_, ?_⟩ <;>
    (intro hm; have := h _ hm; simp [forbiddenHost] at this)

/-- what is assumed about the IPv6 parameter (`ipaddress.IPv6Address(x).compressed`):
the compressed form consists of lower-case hex digits, `:` and `.`, is not empty, and is
accepted unchanged when parsed again.  Monitored by the harness on every logged call. -/
structure V6Params (c c' : Cfg) : Prop where
  ipv6_chars : ∀ x y, c.ipv6 x = .ok y → y ≠ [] ∧
    ∀ ch ∈ y, (48 ≤ ch ∧ ch ≤ 57) ∨ (97 ≤ ch ∧ ch ≤ 102) ∨ ch = 58 ∨ ch = 46
  ipv6_fixed : ∀ x y, c.ipv6 x = .ok y → c'.ipv6 y = .ok y

/-- the host part `H` of the reassembled URL and what parsing it again gives -/
theorem hostpart_reparse (c c' : Cfg) (hv : V6Params c c') {arg hn : Str}
    (hh : parseHostname c arg = .ok hn) :
    let H := if startsWith arg [91] then [91] ++ hn ++ [93] else hn
    parseHost c' H = .ok (hn, none) ∧
    (∀ p, p < 65536 → parseHost c' (H ++ 58 :: natDec p) = .ok (hn, some p)) ∧
    (hn ≠ [] → startsWith H [91] = startsWith arg [91]) ∧
    (47 ∉ H ∧ 63 ∉ H ∧ 35 ∉ H ∧ 64 ∉ H) ∧
    (∀ x ∈ H, x < 128 ∧ ((∀ y ∈ hn, 0x20 < y) → 0x20 < x)) ∧
    (∀ x ∈ hn, isAsciiUpper x = false) := by
  intro H
  cases hb : startsWith arg [91] with
  | false =>
    have hH : H = hn := by simp only [H, hb]; rfl
    have hchars := hostname_lower_ascii c hb hh
    have hnf := not_forbidden (fun x hx => (hchars x hx).2.2)
    rw [hH]
    refine ⟨?_, fun p hp => hostport_reparse c c' hb hh p hp, ?_, ⟨hnf.2.2.1, hnf.2.2.2.2.1, hnf.1, hnf.2.2.2.2.2.1⟩,
      fun x hx => ⟨(hchars x hx).1, fun hy => hy x hx⟩, fun x hx => (hchars x hx).2.1⟩
    · unfold parseHost
      rw [endsWith_none hnf.2.2.2.2.2.2.2.1]
      simp only [Bool.false_eq_true, if_false, rpartition1_none hnf.2.2.2.1]
      rw [hostname_idem c c' hb hh]
    · intro hne
      cases hn with
      | nil => exact absurd rfl hne
      | cons a t =>
        have : a ≠ 91 := fun e => hnf.2.2.2.2.2.2.1 (e ▸ List.mem_cons_self)
        simp [startsWith, this]
  | true =>
    have hH : H = [91] ++ hn ++ [93] := by simp only [H, hb]; rfl
    -- the host name came from the IPv6 parameter
    have hx : ∃ x, c.ipv6 x = .ok hn := by
      unfold parseHostname at hh
      rw [hb] at hh
      simp only [if_true] at hh
      unfold parseIpv6Hostname at hh
      split at hh
      · cases hh
      · split at hh
        · cases hh
        · exact ⟨_, hh⟩
    obtain ⟨x, hx⟩ := hx
    obtain ⟨hne, hch⟩ := hv.ipv6_chars x hn hx
    have hfix := hv.ipv6_fixed x hn hx
    have hno : ∀ d, d ∉ [48, 49, 50, 51, 52, 53, 54, 55, 56, 57, 97, 98, 99, 100, 101, 102, 58, 46] → d ∉ hn := by
      intro d hd hm
      apply hd
      rcases hch d hm with h | h | h | h
      · have : d = 48 ∨ d = 49 ∨ d = 50 ∨ d = 51 ∨ d = 52 ∨ d = 53 ∨ d = 54 ∨ d = 55 ∨ d = 56 ∨ d = 57 := by omega
        simp only [List.mem_cons, List.not_mem_nil, or_false]; omega
      · simp only [List.mem_cons, List.not_mem_nil, or_false]; omega
      · simp [h]
      · simp [h]
    have h37 : 37 ∉ hn := hno 37 (by decide)
    -- parse_hostname of the bracketed form
    have hparse : parseHostname c' ([91] ++ hn ++ [93]) = .ok hn := by
      unfold parseHostname
      have hs : startsWith ([91] ++ hn ++ [93]) [91] = true := by simp [startsWith]
      rw [hs]
      simp only [if_true]
      unfold parseIpv6Hostname
      rw [hs, endsWith_snoc]
      simp only [Bool.not_true, Bool.or_self, Bool.false_eq_true, if_false]
      have hc37 : ([91] ++ hn ++ [93]).contains 37 = false := by
        cases hc : ([91] ++ hn ++ [93]).contains 37 with
        | false => rfl
        | true =>
          exfalso
          have : 37 ∈ [91] ++ hn ++ [93] := by simpa using hc
          simp only [List.mem_append, List.mem_cons, List.not_mem_nil, or_false] at this
          rcases this with (h | h) | h
          · omega
          · exact h37 h
          · omega
      rw [hc37]
      simp only [Bool.false_eq_true, if_false]
      have hsl : pySlice ([91] ++ hn ++ [93]) 1 (([91] ++ hn ++ [93]).length - 1) = hn := by
        unfold pySlice
        have hl : ([91] ++ hn ++ [93]).length - 1 = ([91] ++ hn).length := by simp
        rw [hl, split_take_len]
        simp
      rw [hsl]
      exact hfix
    rw [hH]
    refine ⟨?_, ?_, fun _ => by simp [startsWith], ?_, ?_, ?_⟩
    · unfold parseHost
      rw [endsWith_snoc]
      simp only [if_true]
      rw [hparse]
    · intro p hp
      have hdig := natDec_digits p
      have hno58 : 58 ∉ natDec p := by
        intro hm; have := hdig.2 58 hm; omega
      unfold parseHost
      rw [endsWith_bracket_natDec ([91] ++ hn ++ [93]) p]
      simp only [Bool.false_eq_true, if_false, rpartition1_append ([91] ++ hn ++ [93]) (natDec p) hno58, if_true]
      rw [pyInt_natDec p hp]
      simp only
      have h1 : ¬ (Int.ofNat p < 0) := by
        show ¬ ((p : Int) < 0); omega
      have h2 : ¬ (Int.ofNat p > 65535) := by
        show ¬ ((p : Int) > 65535); omega
      have hrange : (decide (Int.ofNat p < 0) || decide (Int.ofNat p > 65535)) = false :=
        Bool.or_eq_false_iff.mpr ⟨decide_eq_false h1, decide_eq_false h2⟩
      rw [hrange]
      simp only [Bool.false_eq_true, if_false]
      rw [hparse]
      rfl
    · have hm : ∀ d, d ≠ 91 → d ≠ 93 → d ∉ hn → d ∉ [91] ++ hn ++ [93] := by
        intro d h1 h2 h3 hm
        simp only [List.mem_append, List.mem_cons, List.not_mem_nil, or_false] at hm
        rcases hm with (h | h) | h
        · exact h1 h
        · exact h3 h
        · exact h2 h
      exact ⟨hm 47 (by decide) (by decide) (hno 47 (by decide)), hm 63 (by decide) (by decide) (hno 63 (by decide)),
        hm 35 (by decide) (by decide) (hno 35 (by decide)), hm 64 (by decide) (by decide) (hno 64 (by decide))⟩
    · intro d hd
      simp only [List.mem_append, List.mem_cons, List.not_mem_nil, or_false] at hd
      rcases hd with (h | h) | h
      · subst h; exact ⟨by omega, fun _ => by omega⟩
      · rcases hch d h with h' | h' | h' | h' <;> exact ⟨by omega, fun _ => by omega⟩
      · subst h; exact ⟨by omega, fun _ => by omega⟩
    · intro d hd
      unfold isAsciiUpper
      simp only [Bool.and_eq_false_iff, decide_eq_false_iff_not]
      rcases hch d hd with h' | h' | h' | h' <;> omega

end Wpull.Url
