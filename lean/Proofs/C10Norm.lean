/-
C10 — composition of the component theorems into whole-URL statements:
`norm_reparse` and `norm_idem` (section "Property theorems" at the end).
Helper lemmas first.  Uses Proofs/C10.lean (components), Proofs/C11.lean
(`netScheme_some`), Proofs/Lemmas/{Split,PathEnc,Port,Flatten,Ipv4}.lean.
-/
import Proofs.C10
import Proofs.C11
import Proofs.Lemmas.Split
import Proofs.Lemmas.PathEnc
namespace Wpull.Url
open Wpull

/-! ## inversion: what a successful parse of a network URL was built from -/

/-- `port or RELATIVE_SCHEME_DEFAULT_PORTS[scheme]` -/
def effPort (dp : Nat) : Option Nat → Nat
  | some p => if p == 0 then dp else p
  | none => dp

/-- success of `parseNet` from the success of its parts (forward direction) -/
theorem parseNet_of_parts (c : Cfg) (url scheme rem0 : Str) (dp : Nat)
    {hn : Str} {port0 : Option Nat} {np nq nf a b : Str}
    (rp : RemParts) (hrp : splitRem (if startsWith rem0 [47, 47] then rem0.drop 2 else rem0) = rp)
    (hhost : parseHost c (parseAuthority rp.authority).2 = .ok (hn, port0))
    (hne : hn.isEmpty = false)
    (hpath : normalizePath c rp.path = .ok np)
    (hquery : normalizeQuery c rp.query = .ok nq)
    (hfrag : normalizeFragment c rp.fragment = .ok nf)
    (hun : normalizeUsername (percentDecode c (parseUserinfo (parseAuthority rp.authority).1).1) = .ok a)
    (hpw : normalizePassword (percentDecode c (parseUserinfo (parseAuthority rp.authority).1).2) = .ok b) :
    parseNet c url scheme rem0 dp =
      .ok { raw := url, scheme := some scheme, authority := some rp.authority,
            path := some np, query := some nq, fragment := some nf,
            userinfo := some (parseAuthority rp.authority).1,
            username := some (percentDecode c (parseUserinfo (parseAuthority rp.authority).1).1),
            password := some (percentDecode c (parseUserinfo (parseAuthority rp.authority).1).2),
            host := some (parseAuthority rp.authority).2, hostname := some hn,
            port := some (effPort dp port0),
            resource := some rp.resource } := by
  unfold parseNet
  cases port0 <;>
    simp only [hrp, hhost, hne, hpath, hquery, hfrag, hun, hpw, Bool.false_eq_true, if_false, effPort]

/-- inversion of `parseNet` -/
theorem parseNet_inv {c : Cfg} {url scheme rem0 : Str} {dp : Nat} {i : URLInfo}
    (h : parseNet c url scheme rem0 dp = .ok i) :
    ∃ (host hn un pw p1 q1 path query : Str) (port0 : Option Nat) (a b : Str),
      i.scheme = some scheme ∧ i.username = some un ∧ i.password = some pw ∧
      i.host = some host ∧ i.hostname = some hn ∧
      i.port = some (effPort dp port0) ∧
      i.path = some path ∧ i.query = some query ∧
      parseHost c host = .ok (hn, port0) ∧ hn.isEmpty = false ∧
      normalizePath c p1 = .ok path ∧ normalizeQuery c q1 = .ok query ∧
      normalizeUsername un = .ok a ∧ normalizePassword pw = .ok b := by
  unfold parseNet at h
  simp only at h
  split at h
  · cases h
  · rename_i hostname port hph
    split at h
    · cases h
    · rename_i hne
      split at h
      · cases h
      · rename_i np hnp
        split at h
        · cases h
        · rename_i nq hnq
          split at h
          · cases h
          · split at h
            · cases h
            · rename_i a ha
              split at h
              · cases h
              · rename_i b hb
                cases h
                exact ⟨_, hostname, _, _, _, _, np, nq, port, a, b, rfl, rfl, rfl, rfl, rfl, rfl, rfl, rfl,
                  hph, by simpa using hne, hnp, hnq, ha, hb⟩

/-- inversion of `parse` for a result with a network scheme -/
theorem parse_net_inv {c : Cfg} {s : Str} {i : URLInfo} {sch : Str} {dp : Nat}
    (h : parse c s = .ok i) (hnet : netScheme? i.scheme = some (sch, dp)) :
    ∃ (host hn un pw p1 q1 path query : Str) (port0 : Option Nat) (a b : Str),
      i.scheme = some sch ∧ i.username = some un ∧ i.password = some pw ∧
      i.host = some host ∧ i.hostname = some hn ∧
      i.port = some (effPort dp port0) ∧
      i.path = some path ∧ i.query = some query ∧
      parseHost c host = .ok (hn, port0) ∧ hn.isEmpty = false ∧
      normalizePath c p1 = .ok path ∧ normalizeQuery c q1 = .ok query ∧
      normalizeUsername un = .ok a ∧ normalizePassword pw = .ok b := by
  unfold parse at h
  simp only at h
  split at h
  · cases h
  · split at h
    · cases h
    · split at h
      · -- not a network scheme: contradiction with hnet
        rename_i s2 _ hb
        split at h
        · cases h
        cases h
        simp only at hnet
        rw [hb] at hnet; cases hnet
      · rename_i s2 _ sch' dp' hb
        have hinv := parseNet_inv h
        obtain ⟨host, hn, un, pw, p1, q1, path, query, port0, a, b, hs, rest⟩ := hinv
        rw [hs] at hnet
        have h1 := netScheme_some hb
        have h2 := netScheme_some hnet
        have : sch' = sch := by
          have := h2.1; simpa using this
        subst this
        have hdp : dp' = dp := by
          have := h1.2; rw [h2.2] at this; simpa using this.symm
        subst hdp
        exact ⟨host, hn, un, pw, p1, q1, path, query, port0, a, b, hs, rest⟩

/-! ## the URL is a function of eight attributes -/

theorem url_congr {i j : URLInfo} (h1 : j.scheme = i.scheme) (h2 : j.username = i.username)
    (h3 : j.password = i.password) (h4 : j.hostname = i.hostname) (h5 : j.isIPv6 = i.isIPv6)
    (h6 : j.port = i.port) (h7 : j.path = i.path) (h8 : j.query = i.query)
    (hraw : netScheme? i.scheme ≠ none) : j.url = i.url := by
  unfold URLInfo.url
  rw [h1, h2, h3, h4, h5, h6, h7, h8]
  cases hn : netScheme? i.scheme with
  | none => exact absurd hn hraw
  | some p => rfl

/-! ## host part -/

theorem rpartition1_notfound {c : Nat} {s : List Nat} (h : (rpartition1 c s).2.1 = false) :
    (rpartition1 c s).2.2 = s := by
  unfold rpartition1 at h ⊢
  simp only at h ⊢
  split
  · rename_i hf; rw [if_pos hf] at h; cases h
  · rfl

theorem startsWith_append_colon (a b : List Nat) : startsWith (a ++ 58 :: b) [91] = startsWith a [91] := by
  cases a with
  | nil => simp [startsWith]
  | cons x t => simp [startsWith]

/-- inversion of `parse_host` -/
theorem parseHost_inv {c : Cfg} {host hn : Str} {port0 : Option Nat}
    (h : parseHost c host = .ok (hn, port0)) :
    ∃ arg, parseHostname c arg = .ok hn ∧ startsWith host [91] = startsWith arg [91] ∧
      ∀ p, port0 = some p → p < 65536 := by
  unfold parseHost at h
  split at h
  · split at h
    · cases h
    · rename_i x hx; cases h
      exact ⟨host, hx, rfl, fun p hp => by cases hp⟩
  · simp only at h
    split at h
    · rename_i hfound
      split at h
      · cases h
      · rename_i pv hpv
        split at h
        · cases h
        · rename_i hrange
          split at h
          · cases h
          · rename_i x hx
            cases h
            refine ⟨(rpartition1 58 host).1, hx, ?_, ?_⟩
            · have := rpartition1_found hfound
              conv => lhs; rw [this]
              exact startsWith_append_colon _ _
            · intro p hp
              cases hp
              simp only [Bool.or_eq_true, decide_eq_true_eq, not_or, Int.not_lt] at hrange
              omega
    · rename_i hnf
      split at h
      · cases h
      · rename_i x hx
        cases h
        have hnf' : (rpartition1 58 host).2.1 = false := by simpa using hnf
        rw [rpartition1_notfound hnf'] at hx
        exact ⟨host, hx, rfl, fun p hp => by cases hp⟩

theorem endsWith_none {s : List Nat} {x : Nat} (h : x ∉ s) : endsWith s [x] = false := by
  unfold endsWith
  cases hr : s.reverse with
  | nil => simp [startsWith]
  | cons a t =>
    have ha : a ∈ s := by
      have : a ∈ s.reverse := by rw [hr]; simp
      simpa using this
    have : a ≠ x := fun e => h (e ▸ ha)
    simp [startsWith, this]

theorem endsWith_snoc (a : List Nat) (x : Nat) : endsWith (a ++ [x]) [x] = true := by
  unfold endsWith
  simp [startsWith]

/-- characters the forbidden-character test removes -/
theorem not_forbidden {hn : Str} (h : ∀ x ∈ hn, forbiddenHost.contains x = false) :
    35 ∉ hn ∧ 37 ∉ hn ∧ 47 ∉ hn ∧ 58 ∉ hn ∧ 63 ∉ hn ∧ 64 ∉ hn ∧ 91 ∉ hn ∧ 93 ∉ hn ∧ 32 ∉ hn := by
  refine ⟨?_, ?_, ?_, ?_, ?_, ?_, ?_, ?_, ?_⟩ <;>
    (intro hm; have := h _ hm; simp [forbiddenHost] at this)

/-- what is assumed about the IPv6 parameter (`ipaddress.IPv6Address(x).compressed`):
the compressed form consists of lower-case hex digits, `:` and `.`, is not empty, and is
accepted unchanged when parsed again.  Monitored by the harness on every logged call. -/
structure V6Params (c c' : Cfg) : Prop where
  ipv6_chars : ∀ x y, c.ipv6 x = .ok y → y ≠ [] ∧
    ∀ ch ∈ y, (48 ≤ ch ∧ ch ≤ 57) ∨ (97 ≤ ch ∧ ch ≤ 102) ∨ ch = 58 ∨ ch = 46
  ipv6_fixed : ∀ x y, c.ipv6 x = .ok y → c'.ipv6 y = .ok y

/-- the host part `H` of the reassembled URL and what parsing it again gives -/
theorem hostpart_reparse (c c' : Cfg) (hv : V6Params c c') {arg hn : Str}
    (hh : parseHostname c arg = .ok hn) :
    let H := if startsWith arg [91] then [91] ++ hn ++ [93] else hn
    parseHost c' H = .ok (hn, none) ∧
    (∀ p, p < 65536 → parseHost c' (H ++ 58 :: natDec p) = .ok (hn, some p)) ∧
    (hn ≠ [] → startsWith H [91] = startsWith arg [91]) ∧
    (47 ∉ H ∧ 63 ∉ H ∧ 35 ∉ H ∧ 64 ∉ H) ∧
    (∀ x ∈ H, x < 128 ∧ ((∀ y ∈ hn, 0x20 < y) → 0x20 < x)) ∧
    (∀ x ∈ hn, isAsciiUpper x = false) := by
  intro H
  cases hb : startsWith arg [91] with
  | false =>
    have hH : H = hn := by simp only [H, hb]; rfl
    have hchars := hostname_lower_ascii c hb hh
    have hnf := not_forbidden (fun x hx => (hchars x hx).2.2)
    rw [hH]
    refine ⟨?_, fun p hp => hostport_reparse c c' hb hh p hp, ?_, ⟨hnf.2.2.1, hnf.2.2.2.2.1, hnf.1, hnf.2.2.2.2.2.1⟩,
      fun x hx => ⟨(hchars x hx).1, fun hy => hy x hx⟩, fun x hx => (hchars x hx).2.1⟩
    · unfold parseHost
      rw [endsWith_none hnf.2.2.2.2.2.2.2.1]
      simp only [Bool.false_eq_true, if_false, rpartition1_none hnf.2.2.2.1]
      rw [hostname_idem c c' hb hh]
    · intro hne
      cases hn with
      | nil => exact absurd rfl hne
      | cons a t =>
        have : a ≠ 91 := fun e => hnf.2.2.2.2.2.2.1 (e ▸ List.mem_cons_self)
        simp [startsWith, this]
  | true =>
    have hH : H = [91] ++ hn ++ [93] := by simp only [H, hb]; rfl
    -- the host name came from the IPv6 parameter
    have hx : ∃ x, c.ipv6 x = .ok hn := by
      unfold parseHostname at hh
      rw [hb] at hh
      simp only [if_true] at hh
      unfold parseIpv6Hostname at hh
      split at hh
      · cases hh
      · split at hh
        · cases hh
        · exact ⟨_, hh⟩
    obtain ⟨x, hx⟩ := hx
    obtain ⟨hne, hch⟩ := hv.ipv6_chars x hn hx
    have hfix := hv.ipv6_fixed x hn hx
    have hno : ∀ d, d ∉ [48, 49, 50, 51, 52, 53, 54, 55, 56, 57, 97, 98, 99, 100, 101, 102, 58, 46] → d ∉ hn := by
      intro d hd hm
      apply hd
      rcases hch d hm with h | h | h | h
      · have : d = 48 ∨ d = 49 ∨ d = 50 ∨ d = 51 ∨ d = 52 ∨ d = 53 ∨ d = 54 ∨ d = 55 ∨ d = 56 ∨ d = 57 := by omega
        simp only [List.mem_cons, List.not_mem_nil, or_false]; omega
      · simp only [List.mem_cons, List.not_mem_nil, or_false]; omega
      · simp [h]
      · simp [h]
    have h37 : 37 ∉ hn := hno 37 (by decide)
    -- parse_hostname of the bracketed form
    have hparse : parseHostname c' ([91] ++ hn ++ [93]) = .ok hn := by
      unfold parseHostname
      have hs : startsWith ([91] ++ hn ++ [93]) [91] = true := by simp [startsWith]
      rw [hs]
      simp only [if_true]
      unfold parseIpv6Hostname
      rw [hs, endsWith_snoc]
      simp only [Bool.not_true, Bool.or_self, Bool.false_eq_true, if_false]
      have hc37 : ([91] ++ hn ++ [93]).contains 37 = false := by
        cases hc : ([91] ++ hn ++ [93]).contains 37 with
        | false => rfl
        | true =>
          exfalso
          have : 37 ∈ [91] ++ hn ++ [93] := by simpa using hc
          simp only [List.mem_append, List.mem_cons, List.not_mem_nil, or_false] at this
          rcases this with (h | h) | h
          · omega
          · exact h37 h
          · omega
      rw [hc37]
      simp only [Bool.false_eq_true, if_false]
      have hsl : pySlice ([91] ++ hn ++ [93]) 1 (([91] ++ hn ++ [93]).length - 1) = hn := by
        unfold pySlice
        have hl : ([91] ++ hn ++ [93]).length - 1 = ([91] ++ hn).length := by simp
        rw [hl, split_take_len]
        simp
      rw [hsl]
      exact hfix
    rw [hH]
    refine ⟨?_, ?_, fun _ => by simp [startsWith], ?_, ?_, ?_⟩
    · unfold parseHost
      rw [endsWith_snoc]
      simp only [if_true]
      rw [hparse]
    · intro p hp
      have hdig := natDec_digits p
      have hno58 : 58 ∉ natDec p := by
        intro hm; have := hdig.2 58 hm; omega
      unfold parseHost
      rw [endsWith_bracket_natDec ([91] ++ hn ++ [93]) p]
      simp only [Bool.false_eq_true, if_false, rpartition1_append ([91] ++ hn ++ [93]) (natDec p) hno58, if_true]
      rw [pyInt_natDec p hp]
      simp only
      have h1 : ¬ (Int.ofNat p < 0) := by
        show ¬ ((p : Int) < 0); omega
      have h2 : ¬ (Int.ofNat p > 65535) := by
        show ¬ ((p : Int) > 65535); omega
      have hrange : (decide (Int.ofNat p < 0) || decide (Int.ofNat p > 65535)) = false :=
        Bool.or_eq_false_iff.mpr ⟨decide_eq_false h1, decide_eq_false h2⟩
      rw [hrange]
      simp only [Bool.false_eq_true, if_false]
      rw [hparse]
      rfl
    · have hm : ∀ d, d ≠ 91 → d ≠ 93 → d ∉ hn → d ∉ [91] ++ hn ++ [93] := by
        intro d h1 h2 h3 hm
        simp only [List.mem_append, List.mem_cons, List.not_mem_nil, or_false] at hm
        rcases hm with (h | h) | h
        · exact h1 h
        · exact h3 h
        · exact h2 h
      exact ⟨hm 47 (by decide) (by decide) (hno 47 (by decide)), hm 63 (by decide) (by decide) (hno 63 (by decide)),
        hm 35 (by decide) (by decide) (hno 35 (by decide)), hm 64 (by decide) (by decide) (hno 64 (by decide))⟩
    · intro d hd
      simp only [List.mem_append, List.mem_cons, List.not_mem_nil, or_false] at hd
      rcases hd with (h | h) | h
      · subst h; exact ⟨by omega, fun _ => by omega⟩
      · rcases hch d h with h' | h' | h' | h' <;> exact ⟨by omega, fun _ => by omega⟩
      · subst h; exact ⟨by omega, fun _ => by omega⟩
    · intro d hd
      unfold isAsciiUpper
      simp only [Bool.and_eq_false_iff, decide_eq_false_iff_not]
      rcases hch d hd with h' | h' | h' | h' <;> omega

/-! ## characters of a normalised component -/

/-- a character `percent_encode` + `uppercase_percent_encoding` can emit -/
def OutChar (set : List Nat) (c : Nat) : Prop :=
  c = 37 ∨ (48 ≤ c ∧ c ≤ 57) ∨ (65 ≤ c ∧ c ≤ 70) ∨ (0x20 ≤ c ∧ c ≤ 0x7E ∧ set.contains c = false)

instance (set : List Nat) (c : Nat) : Decidable (OutChar set c) := by unfold OutChar; exact inferInstance

theorem pctByte_origin {set : List Nat} {b : Nat} (hb : b < 256) :
    ∀ c ∈ pctByte set b, OutChar set c ∧ (c = 32 → b = 32) := by
  unfold pctByte
  split
  · intro c hc
    simp only [List.mem_cons, List.not_mem_nil, or_false] at hc
    have h1 := hexChar_range (n := b / 16) (by omega)
    have h2 := hexChar_range (n := b % 16) (by omega)
    have e1 : hexChar (b / 16) ≤ 57 ∨ 65 ≤ hexChar (b / 16) := by unfold hexChar; split <;> omega
    have e2 : hexChar (b % 16) ≤ 57 ∨ 65 ≤ hexChar (b % 16) := by unfold hexChar; split <;> omega
    rcases hc with rfl | rfl | rfl
    · exact ⟨Or.inl rfl, by omega⟩
    · refine ⟨?_, by omega⟩
      rcases e1 with e | e
      · exact Or.inr (Or.inl ⟨h1.1, e⟩)
      · exact Or.inr (Or.inr (Or.inl ⟨e, h1.2⟩))
    · refine ⟨?_, by omega⟩
      rcases e2 with e | e
      · exact Or.inr (Or.inl ⟨h2.1, e⟩)
      · exact Or.inr (Or.inr (Or.inl ⟨e, h2.2⟩))
  · rename_i h
    simp only [Bool.or_eq_true, decide_eq_true_eq, not_or, Bool.not_eq_true] at h
    intro c hc
    simp only [List.mem_cons, List.not_mem_nil, or_false] at hc
    subst hc
    exact ⟨Or.inr (Or.inr (Or.inr ⟨by omega, by omega, h.2⟩)), fun e => e⟩

theorem pctBytes_origin {set : List Nat} : ∀ {bs : Bytes}, (∀ b ∈ bs, b < 256) →
    ∀ c ∈ pctBytes set bs, OutChar set c ∧ (c = 32 → 32 ∈ bs)
  | [], _ => by intro c hc; simp [pctBytes] at hc
  | b :: t, h => by
    intro c hc
    rw [pctBytes, List.mem_append] at hc
    rcases hc with hc | hc
    · have := pctByte_origin (set := set) (h b (by simp)) c hc
      exact ⟨this.1, fun e => by rw [this.2 e]; simp⟩
    · have := pctBytes_origin (set := set) (bs := t) (fun x hx => h x (by simp [hx])) c hc
      exact ⟨this.1, fun e => List.mem_cons_of_mem _ (this.2 e)⟩

theorem upperPct_mem (s : Str) : ∀ c ∈ upperPct s, c ∈ s ∨ (65 ≤ c ∧ c ≤ 70) := by
  fun_induction upperPct s with
  | case1 c a b t hm ih =>
    simp only [Bool.and_eq_true] at hm
    have up : ∀ x, isHexDigit x = true → asciiUpper x = x ∨ (65 ≤ asciiUpper x ∧ asciiUpper x ≤ 70) := by
      intro x hx
      unfold asciiUpper
      split
      · rename_i hl
        unfold isAsciiLower at hl
        unfold isHexDigit isAsciiDigit at hx
        simp only [Bool.and_eq_true, decide_eq_true_eq] at hl
        simp only [Bool.or_eq_true, Bool.and_eq_true, decide_eq_true_eq] at hx
        right; omega
      · left; rfl
    intro x hx
    simp only [List.mem_cons] at hx ⊢
    rcases hx with rfl | rfl | rfl | hx
    · left; left; rfl
    · rcases up a hm.1.2 with e | e
      · left; right; left; exact e
      · right; exact e
    · rcases up b hm.2 with e | e
      · left; right; right; left; exact e
      · right; exact e
    · rcases ih x hx with e | e
      · left; right; right; right; exact e
      · right; exact e
  | case2 c a b t hm ih =>
    intro x hx
    simp only [List.mem_cons] at hx
    rcases hx with rfl | hx
    · left; simp
    · rcases ih x hx with e | e
      · left; exact List.mem_cons_of_mem _ e
      · right; exact e
  | case3 c a => intro x hx; left; exact hx
  | case4 c => intro x hx; left; exact hx
  | case5 => intro x hx; left; exact hx

/-- characters of `upperPct (pctBytes set bs)` -/
theorem component_out {set : List Nat} {bs : Bytes} (hb : ∀ b ∈ bs, b < 256) :
    ∀ c ∈ upperPct (pctBytes set bs), OutChar set c ∧ (c = 32 → 32 ∈ bs) := by
  intro c hc
  rcases upperPct_mem _ c hc with h | h
  · exact pctBytes_origin hb c h
  · exact ⟨Or.inr (Or.inr (Or.inl h)), by omega⟩

theorem outChar_range {set : List Nat} {c : Nat} (h : OutChar set c) : 0x20 ≤ c ∧ c ≤ 0x7E := by
  unfold OutChar at h; omega

theorem outChar_stable {set : List Nat} (hs : SetClosed set) {c : Nat} (h : OutChar set c) : Stable set c := by
  rcases h with h | h | h | h
  · subst h; exact stable_pct hs
  · have : c = hexChar (c - 48) := by unfold hexChar; split <;> omega
    rw [this]; exact stable_hexChar hs (by omega)
  · have : c = hexChar (c - 55) := by unfold hexChar; split <;> omega
    rw [this]; exact stable_hexChar hs (by omega)
  · exact h

/-- a normalised component is returned unchanged by `percent_encode` with an ASCII-transparent codec -/
theorem percentEncode_fixed' {enc : Str → Except PyExc Bytes} (henc : SegSafe enc) {set : List Nat}
    (hs : SetClosed set) {s : Str} (h : ∀ c ∈ s, OutChar set c) : percentEncode enc set s = .ok s := by
  unfold percentEncode
  rw [segSafe_ascii henc (fun c hc => by have := outChar_range (h c hc); omega)]
  simp only
  rw [pctBytes_stable (fun c hc => outChar_stable hs (h c hc))]

theorem utf8_bytes {s : Str} {bs : Bytes} (h : utf8Enc s = .ok bs) : ∀ b ∈ bs, b < 256 :=
  segSafe_bytes utf8Enc_segSafe h

/-! ## user info -/

/-- characters and delimiters of a normalised user name -/
theorem username_out {un a : Str} (h : normalizeUsername un = .ok a) :
    (∀ c ∈ a, 0x21 ≤ c ∧ c ≤ 0x7E) ∧ 47 ∉ a ∧ 63 ∉ a ∧ 35 ∉ a ∧ 64 ∉ a ∧ 58 ∉ a := by
  unfold normalizeUsername percentEncode at h
  split at h
  · cases h
  · rename_i r hr
    split at hr
    · cases hr
    · rename_i bs hbs
      cases hr; cases h
      have hout := component_out (set := usernameSet) (utf8_bytes hbs)
      have no : ∀ d, ¬ OutChar usernameSet d → d ∉ upperPct (pctBytes usernameSet bs) :=
        fun d hd hm => hd (hout d hm).1
      refine ⟨fun c hc => ?_, no 47 (by decide), no 63 (by decide), no 35 (by decide), no 64 (by decide), no 58 (by decide)⟩
      have h1 := (hout c hc).1
      have h2 := outChar_range h1
      refine ⟨?_, h2.2⟩
      by_cases e : c = 32
      · subst e; exact absurd h1 (by decide)
      · omega

theorem password_out {pw b : Str} (h : normalizePassword pw = .ok b) :
    (∀ c ∈ b, 0x21 ≤ c ∧ c ≤ 0x7E) ∧ 47 ∉ b ∧ 63 ∉ b ∧ 35 ∉ b ∧ 64 ∉ b := by
  unfold normalizePassword percentEncode at h
  split at h
  · cases h
  · rename_i r hr
    split at hr
    · cases hr
    · rename_i bs hbs
      cases hr; cases h
      have hout := component_out (set := passwordSet) (utf8_bytes hbs)
      have no : ∀ d, ¬ OutChar passwordSet d → d ∉ upperPct (pctBytes passwordSet bs) :=
        fun d hd hm => hd (hout d hm).1
      refine ⟨fun c hc => ?_, no 47 (by decide), no 63 (by decide), no 35 (by decide), no 64 (by decide)⟩
      have h1 := (hout c hc).1
      have h2 := outChar_range h1
      refine ⟨?_, h2.2⟩
      by_cases e : c = 32
      · subst e; exact absurd h1 (by decide)
      · omega

/-- **C10, user info holds no bracket.**  `[` and `]` delimit an IPv6 host; in a normalised user name or
password they are percent-encoded, so the only brackets of a normal form are those of an IPv6 host. -/
theorem userinfo_no_bracket {un pw a b : Str} (ha : normalizeUsername un = .ok a)
    (hb : normalizePassword pw = .ok b) : 91 ∉ a ∧ 93 ∉ a ∧ 91 ∉ b ∧ 93 ∉ b := by
  have key : ∀ (set : List Nat) (bs : Bytes), (∀ x ∈ bs, x < 256) → ¬ OutChar set 91 → ¬ OutChar set 93 →
      91 ∉ upperPct (pctBytes set bs) ∧ 93 ∉ upperPct (pctBytes set bs) := by
    intro set bs hbs h1 h2
    exact ⟨fun hm => h1 (component_out hbs 91 hm).1, fun hm => h2 (component_out hbs 93 hm).1⟩
  unfold normalizeUsername percentEncode at ha
  unfold normalizePassword percentEncode at hb
  split at ha
  · cases ha
  · rename_i r hr
    split at hr
    · cases hr
    · rename_i bs hbs
      cases hr; cases ha
      split at hb
      · cases hb
      · rename_i r2 hr2
        split at hr2
        · cases hr2
        · rename_i bs2 hbs2
          cases hr2; cases hb
          have k1 := key usernameSet bs (utf8_bytes hbs) (by decide) (by decide)
          have k2 := key passwordSet bs2 (utf8_bytes hbs2) (by decide) (by decide)
          exact ⟨k1.1, k1.2, k2.1, k2.2⟩

theorem normalizeUsername_nil : normalizeUsername [] = .ok [] := by decide
theorem normalizePassword_nil : normalizePassword [] = .ok [] := by decide

/-- the user-info part `a[:b]@` in front of `R` is split off and decoded back to (un, pw) -/
theorem userinfo_reparse (c' : Cfg) {un pw a b : Str}
    (ha : normalizeUsername un = .ok a) (hb : normalizePassword pw = .ok b)
    (hqu : percentDecode c' a = un) (hqp : percentDecode c' b = pw) (R : Str) (hR : 64 ∉ R) :
    let auth := a ++ (if pw.isEmpty then [] else 58 :: b) ++ (if un.isEmpty && pw.isEmpty then [] else [64]) ++ R
    (parseAuthority auth).2 = R ∧
    percentDecode c' (parseUserinfo (parseAuthority auth).1).1 = un ∧
    percentDecode c' (parseUserinfo (parseAuthority auth).1).2 = pw := by
  intro auth
  have hao := username_out ha
  have hbo := password_out hb
  have hd0 : percentDecode c' [] = [] := by simp [percentDecode]
  by_cases hu : un.isEmpty = true
  · have hun : un = [] := by simpa using hu
    subst hun
    rw [normalizeUsername_nil] at ha; cases ha
    by_cases hp : pw.isEmpty = true
    · have hpw : pw = [] := by simpa using hp
      subst hpw
      have hauth : auth = R := by simp [auth]
      rw [hauth]
      unfold parseAuthority parseUserinfo
      simp only [partition1_none hR, Bool.false_eq_true, if_false, partition1, hd0, and_self]
    · have hauth : auth = (58 :: b) ++ 64 :: R := by simp [auth, hp]
      rw [hauth]
      have h64 : 64 ∉ 58 :: b := by
        intro hm; simp only [List.mem_cons] at hm
        rcases hm with h | h
        · omega
        · exact hbo.2.2.2.2 h
      unfold parseAuthority
      simp only [port_partition1_append 64 _ _ h64, if_true]
      unfold parseUserinfo
      have : partition1 58 (58 :: b) = ([], true, b) := by simp [partition1]
      simp only [this, hd0, hqp, and_self]
  · have hauth : auth = (a ++ (if pw.isEmpty then [] else 58 :: b)) ++ 64 :: R := by
      simp [auth, hu]
    rw [hauth]
    have h64 : 64 ∉ a ++ (if pw.isEmpty then [] else 58 :: b) := by
      intro hm
      rw [List.mem_append] at hm
      rcases hm with h | h
      · exact hao.2.2.2.2.1 h
      · split at h
        · cases h
        · simp only [List.mem_cons] at h
          rcases h with h | h
          · omega
          · exact hbo.2.2.2.2 h
    unfold parseAuthority
    simp only [port_partition1_append 64 _ _ h64, if_true]
    unfold parseUserinfo
    by_cases hp : pw.isEmpty = true
    · have hpw : pw = [] := by simpa using hp
      subst hpw
      simp only [List.isEmpty_nil, if_true, List.append_nil, partition1_none hao.2.2.2.2.2, hqu, hd0, and_self]
    · simp only [hp, Bool.false_eq_true, if_false, port_partition1_append 58 _ _ hao.2.2.2.2.2, hqu, hqp, and_self]

/-! ## path -/

theorem clean_head {segs : List Str} (hc : CleanSegs segs) (hne : joinWith [47] segs ≠ []) :
    startsWith (joinWith [47] segs) [47] = false := by
  obtain ⟨hnn, hall, hinit⟩ := hc
  have key : ∀ (s : Str) (rest : Str), 47 ∉ s → s ≠ [] → startsWith (s ++ rest) [47] = false := by
    intro s rest h47 hs
    cases s with
    | nil => exact absurd rfl hs
    | cons x t =>
      have : x ≠ 47 := fun e => h47 (e ▸ List.mem_cons_self)
      simp [startsWith, this]
  match segs, hnn, hall, hinit, hne with
  | [s], _, hall, _, hne =>
    have hs : s ≠ [] := by simpa [joinWith] using hne
    have := key s [] (hall s (by simp)).1 hs
    simpa [joinWith] using this
  | s :: s2 :: r, _, hall, hinit, _ =>
    have hs : s ≠ [] := hinit s (by simp [List.dropLast])
    have := key s ([47] ++ joinWith [47] (s2 :: r)) (hall s (by simp)).1 hs
    simpa [joinWith] using this

/-- the normalised path: shape, delimiters, characters, and what normalising it again gives -/
theorem path_reparse (c c' : Cfg) (hs : SegSafe c.encode) (hs' : SegSafe c'.encode) {p1 path : Str}
    (h : normalizePath c p1 = .ok path) :
    ∃ T, path = 47 :: T ∧ 63 ∉ path ∧ 35 ∉ path ∧ (∀ x ∈ path, 0x21 ≤ x ∧ x ≤ 0x7E) ∧
      normalizePath c' (if T.isEmpty then [47] else T) = .ok path := by
  unfold normalizePath percentEncode at h
  simp only at h
  split at h
  · cases h
  · rename_i r hr
    split at hr
    · cases hr
    · rename_i bs hbs
      cases hr; cases h
      have hbytes := segSafe_bytes hs hbs
      obtain ⟨segs, hclean, hshape⟩ := path_normal_clean hs _ bs hbs
      have hflat := path_normal_flat hs _ bs hbs
      have hout := component_out (set := defaultSet) hbytes
      have no : ∀ d, ¬ OutChar defaultSet d → d ∉ upperPct (pctBytes defaultSet bs) :=
        fun d hd hm => hd (hout d hm).1
      refine ⟨joinWith [47] segs, hshape, no 63 (by decide), no 35 (by decide), ?_, ?_⟩
      · intro x hx
        have h1 := (hout x hx).1
        have h2 := outChar_range h1
        refine ⟨?_, h2.2⟩
        by_cases e : x = 32
        · subst e; exact absurd h1 (by decide)
        · omega
      · -- the argument `parse` hands to normalize_path leads back to the same text
        have harg : (if startsWith (if (joinWith [47] segs).isEmpty then [47] else joinWith [47] segs) [47]
              then (if (joinWith [47] segs).isEmpty then [47] else joinWith [47] segs)
              else 47 :: (if (joinWith [47] segs).isEmpty then [47] else joinWith [47] segs))
            = upperPct (pctBytes defaultSet bs) := by
          rw [hshape]
          by_cases he : (joinWith [47] segs).isEmpty = true
          · have : joinWith [47] segs = [] := by simpa using he
            simp [this, startsWith]
          · have hne : joinWith [47] segs ≠ [] := by simpa using he
            simp only [he, Bool.false_eq_true, if_false, clean_head hclean hne]
        unfold normalizePath
        simp only
        rw [harg, hflat]
        rw [percentEncode_fixed' hs' defaultSet_closed (fun x hx => (hout x hx).1)]
        simp only
        rw [upperPct_idem]

/-! ## query -/

/-- the codec produces the byte 0x20 only for the space character -/
def SpaceSafe (enc : Str → Except PyExc Bytes) : Prop :=
  ∀ t bs, enc t = .ok bs → 32 ∈ bs → 32 ∈ t

theorem utf8Enc_spaceSafe : SpaceSafe utf8Enc := by
  intro t
  induction t with
  | nil => intro bs h hm; simp [utf8Enc, encodeBy] at h; subst h; simp at hm
  | cons c t ih =>
    intro bs h hm
    unfold utf8Enc encodeBy at h
    split at h
    · cases h
    · rename_i a ha
      split at h
      · cases h
      · rename_i b hb
        cases h
        rw [List.mem_append] at hm
        rcases hm with hm | hm
        · have : c = 32 := by
            unfold utf8Enc1 at ha
            repeat' split at ha
            all_goals first
              | (cases ha; simp only [List.mem_cons, List.not_mem_nil, or_false] at hm; omega)
              | cases ha
          subst this; simp
        · exact List.mem_cons_of_mem _ (ih b hb hm)

theorem replace1_mem (a b : Nat) (s : List Nat) : ∀ x ∈ replace1 a b s, (x = b ∨ x ∈ s) ∧ (a ≠ b → x ≠ a) := by
  intro x hx
  unfold replace1 at hx
  obtain ⟨y, hy, rfl⟩ := List.mem_map.mp hx
  by_cases e : (y == a) = true
  · rw [if_pos e]
    exact ⟨Or.inl rfl, fun h h' => h h'.symm⟩
  · rw [if_neg e]
    refine ⟨Or.inr hy, fun _ h' => ?_⟩
    subst h'; simp at e

/-- the normalised query: delimiter, characters, and what normalising it again gives -/
theorem query_reparse (c c' : Cfg) (hs : SegSafe c.encode) (hsp : SpaceSafe c.encode)
    (hs' : SegSafe c'.encode) {q1 query : Str} (h : normalizeQuery c q1 = .ok query) :
    35 ∉ query ∧ (∀ x ∈ query, 0x21 ≤ x ∧ x ≤ 0x7E) ∧ normalizeQuery c' query = .ok query := by
  unfold normalizeQuery percentEncodePlus percentEncode at h
  split at h
  · cases h
  · rename_i r hr
    split at hr
    · cases hr
    · rename_i r0 hr0
      split at hr0
      · cases hr0
      · rename_i bs hbs
        cases hr0; cases hr; cases h
        have hbytes := segSafe_bytes hs hbs
        have horig := pctBytes_origin (set := querySet) hbytes
        -- characters of the text before upper-casing
        have hmid : ∀ x ∈ (if q1.contains 32 then replace1 32 43 (pctBytes querySet bs) else pctBytes querySet bs),
            OutChar querySet x ∧ x ≠ 32 := by
          intro x hx
          split at hx
          · have := replace1_mem 32 43 _ x hx
            rcases this.1 with e | e
            · subst e; exact ⟨by decide, by omega⟩
            · exact ⟨(horig x e).1, this.2 (by omega)⟩
          · rename_i hno
            refine ⟨(horig x hx).1, fun e => ?_⟩
            have h32 := hsp _ _ hbs ((horig x hx).2 e)
            apply hno
            simpa using h32
        have hfin : ∀ x ∈ upperPct (if q1.contains 32 then replace1 32 43 (pctBytes querySet bs) else pctBytes querySet bs),
            OutChar querySet x ∧ x ≠ 32 := by
          intro x hx
          rcases upperPct_mem _ x hx with e | e
          · exact hmid x e
          · exact ⟨Or.inr (Or.inr (Or.inl e)), by omega⟩
        refine ⟨fun hm => absurd (hfin 35 hm).1 (by decide), fun x hx => ?_, ?_⟩
        · have := outChar_range (hfin x hx).1
          have := (hfin x hx).2
          omega
        · unfold normalizeQuery percentEncodePlus
          rw [percentEncode_fixed' hs' querySet_closed (fun x hx => (hfin x hx).1)]
          simp only
          have hno : (upperPct (if q1.contains 32 then replace1 32 43 (pctBytes querySet bs) else pctBytes querySet bs)).contains 32 = false := by
            cases hc : (upperPct (if q1.contains 32 then replace1 32 43 (pctBytes querySet bs) else pctBytes querySet bs)).contains 32 with
            | false => rfl
            | true => exact absurd rfl (hfin 32 (by simpa using hc)).2
          rw [hno]
          simp only [Bool.false_eq_true, if_false]
          rw [upperPct_idem]

/-! ## scheme -/

theorem scheme_facts {sch : Str} {dp : Nat} (h : defaultPort? sch = some dp) :
    sch ≠ [] ∧ 58 ∉ sch ∧ sch.contains 46 = false ∧ (some sch == some sLocalhost) = false ∧
    isAscii sch = true ∧ sch.map asciiLower = sch ∧ (∀ x ∈ sch, 0x21 ≤ x ∧ x ≤ 0x7E) ∧ 0 < dp ∧ dp < 65536 := by
  have hm := lookup_mem (l := schemePorts) h
  simp only [schemePorts, List.mem_cons, Prod.mk.injEq, List.not_mem_nil, or_false] at hm
  rcases hm with ⟨rfl, rfl⟩ | ⟨rfl, rfl⟩ | ⟨rfl, rfl⟩ | ⟨rfl, rfl⟩ | ⟨rfl, rfl⟩ | ⟨rfl, rfl⟩ <;> decide

/-! ## the reassembled URL as a function of the attributes -/

theorem isIPv6_eq {i : URLInfo} {host : Str} (hh : i.host = some host) :
    (i.isIPv6 == some true) = startsWith host [91] := by
  unfold URLInfo.isIPv6
  rw [hh]
  simp only
  cases host with
  | nil => simp [startsWith]
  | cons x t => simp

theorem url_shape {i : URLInfo} {sch un pw host hn path query a b : Str} {dp port : Nat}
    (hs : i.scheme = some sch) (hdp : defaultPort? sch = some dp)
    (hun : i.username = some un) (hpw : i.password = some pw) (hh : i.host = some host)
    (hhn : i.hostname = some hn) (hport : i.port = some port) (hpath : i.path = some path)
    (hq : i.query = some query)
    (ha : normalizeUsername un = .ok a) (hb : normalizePassword pw = .ok b) :
    i.url = .ok (sch ++ ([58, 47, 47] ++ ((a ++ ((if pw.isEmpty then [] else 58 :: b) ++
      (if un.isEmpty && pw.isEmpty then [] else [64]))) ++
      ((if startsWith host [91] then [91] ++ hn ++ [93] else hn) ++
      ((if port = dp then [] else 58 :: natDec port) ++ (path ++ (if query.isEmpty then [] else 63 :: query))))))) := by
  have hv6 := isIPv6_eq hh
  unfold URLInfo.url
  rw [hs, netScheme_of hdp]
  simp only [hun, hpw, hhn, hport, hpath, hq, Option.getD_some, hv6]
  have h1 : (if un.isEmpty = true then Except.ok [] else normalizeUsername un) = (.ok a : Except PyExc Str) := by
    by_cases e : un.isEmpty = true
    · have : un = [] := by simpa using e
      subst this
      rw [normalizeUsername_nil] at ha; cases ha; simp
    · simp [e, ha]
  have h2 : (if pw.isEmpty = true then Except.ok [] else normalizePassword pw) = (.ok b : Except PyExc Str) := by
    by_cases e : pw.isEmpty = true
    · have : pw = [] := by simpa using e
      subst this
      rw [normalizePassword_nil] at hb; cases hb; simp
    · simp [e, hb]
  rw [h1]
  simp only
  rw [h2]
  simp only
  have hp : (some dp != some port) = !(decide (port = dp)) := by
    by_cases e : port = dp
    · subst e; simp
    · have : dp ≠ port := fun h => e h.symm
      simp [e, this]
  rw [hp]
  by_cases e : port = dp
  · simp [e, List.append_assoc]
  · simp [e, List.append_assoc]

/-! ## re-parsing the reassembled URL -/

theorem isPySpace_false {x : Nat} (h1 : 0x20 < x) (h2 : x < 0x80) : isPySpace x = false := by
  unfold isPySpace
  simp only [Bool.or_eq_false_iff, Bool.and_eq_false_iff, decide_eq_false_iff_not, beq_eq_false_iff_ne, ne_eq]
  omega

theorem normalizeFragment_nil (c' : Cfg) (hs' : SegSafe c'.encode) : normalizeFragment c' [] = .ok [] := by
  unfold normalizeFragment percentEncode
  rw [segSafe_ascii hs' (s := []) (fun c hc => by cases hc)]
  rfl

theorem startsWith_append_ne {H : List Nat} (P : List Nat) (h : H ≠ []) :
    startsWith (H ++ P) [91] = startsWith H [91] := by
  cases H with
  | nil => exact absurd rfl h
  | cons x t => simp [startsWith]

/-- the scheme decisions on `scheme:rest` for a network scheme -/
theorem schemeSplit_normal (c' : Cfg) {sch rest : Str} {dp : Nat} (hdp : defaultPort? sch = some dp) :
    schemeSplit c' (sch ++ 58 :: rest) = .ok (some sch, rest) := by
  obtain ⟨hsne, hs58, hs46, hsloc, hsasc, hslow, _, _, _⟩ := scheme_facts hdp
  have hemp : sch.isEmpty = false := by
    cases sch with
    | nil => exact absurd rfl hsne
    | cons x t => rfl
  have hlow : pyLower c' sch = sch := by unfold pyLower; rw [hsasc]; simpa using hslow
  unfold schemeSplit
  simp only [port_partition1_append 58 sch rest hs58, hemp, hlow, Bool.false_eq_true, if_false,
    Bool.not_true, Bool.false_and, Option.getD_some, hs46, Bool.and_false, hsloc, Bool.or_self]

/-- what is assumed about the parameters when the normal form is parsed again.  `c` is the
configuration of the first parse (any document encoding), `c'` the one of the second. -/
structure ReparseParams (c c' : Cfg) : Prop where
  /-- the document codec works character by character, is the identity on ASCII and gives no
  `.` `/` bytes for other characters (utf-8, latin-1, ascii: proved; other codecs: monitored) -/
  enc_first : SegSafe c.encode
  /-- … and produces the byte 0x20 only for the space character -/
  enc_space : SpaceSafe c.encode
  /-- the codec of the second parse is the identity on ASCII text -/
  enc_second : SegSafe c'.encode
  /-- IPv6: the compressed form is hex digits / `:` / `.` and re-parses to itself -/
  v6 : V6Params c c'
  /-- `unquote(percent_encode(x)) = x` for user name and password -/
  unquote_user : ∀ un a, normalizeUsername un = .ok a → percentDecode c' a = un
  unquote_pass : ∀ pw b, normalizePassword pw = .ok b → percentDecode c' b = pw

/-- the main composition: the normal form `n` of a network URL parses again, to a result with
the same scheme, host name, port, path and query, whose normal form is `n`. -/
theorem norm_main (c c' : Cfg) (hp : ReparseParams c c') (s : Str) (i : URLInfo) (sch : Str) (dp : Nat)
    (n : Str) (hparse : parse c s = .ok i) (hnet : netScheme? i.scheme = some (sch, dp))
    (hurl : i.url = .ok n)
    (hprint : ∀ hn, i.hostname = some hn → ∀ x ∈ hn, 0x20 < x) :
    (∃ j, parse c' n = .ok j ∧ j.url = .ok n ∧ j.scheme = i.scheme ∧ j.hostname = i.hostname ∧
      j.port = i.port ∧ j.path = i.path ∧ j.query = i.query) ∧ ∀ x ∈ n, 0x20 < x ∧ x < 0x80 := by
  obtain ⟨host, hn, un, pw, p1, q1, path, query, port0, a, b, hs, hun, hpw, hhost, hhn, hport, hpath,
    hquery, hph, hne, hnp, hnq, ha, hb⟩ := parse_net_inv hparse hnet
  have hnet' : netScheme? (some sch) = some (sch, dp) := by rw [hs] at hnet; exact hnet
  have hdp := (netScheme_some hnet').2
  obtain ⟨hsne, hs58, hs46, hsloc, hsasc, hslow, hsch, hdp0, hdplt⟩ := scheme_facts hdp
  obtain ⟨arg, hharg, hv6eq, hportlt⟩ := parseHost_inv hph
  have hhne : hn ≠ [] := by intro e; subst e; simp at hne
  -- the effective port
  obtain ⟨port, hpv, hplt, hp0⟩ : ∃ port, effPort dp port0 = port ∧ port < 65536 ∧ port ≠ 0 := by
    cases port0 with
    | none => exact ⟨dp, rfl, hdplt, by omega⟩
    | some p =>
      by_cases e : (p == 0) = true
      · exact ⟨dp, by simp [effPort, e], hdplt, by omega⟩
      · refine ⟨p, by simp [effPort, e], hportlt p rfl, ?_⟩
        intro h0; subst h0; simp at e
  rw [hpv] at hport
  -- components
  obtain ⟨T, hT, hp63, hp35, hpchars, hpre⟩ := path_reparse c c' hp.enc_first hp.enc_second hnp
  obtain ⟨hq35, hqchars, hqre⟩ := query_reparse c c' hp.enc_first hp.enc_space hp.enc_second hnq
  have hhp := hostpart_reparse c c' hp.v6 hharg
  simp only at hhp
  obtain ⟨hH0, hHp, hHv6, ⟨hH47, hH63, hH35, hH64⟩, hHchars, _⟩ := hhp
  have huo := username_out ha
  have hpo := password_out hb
  have hhnprint := hprint hn hhn
  -- names for the pieces
  generalize hHdef : (if startsWith arg [91] = true then [91] ++ hn ++ [93] else hn) = H at *
  let X : Str := if pw.isEmpty then [] else 58 :: b
  let Y : Str := if un.isEmpty && pw.isEmpty then [] else [64]
  let P : Str := if port = dp then [] else 58 :: natDec port
  let qs : Str := if query.isEmpty then [] else 63 :: query
  have hX : ∀ x ∈ X, (0x20 < x ∧ x < 0x80) ∧ x ≠ 47 ∧ x ≠ 63 ∧ x ≠ 35 ∧ x ≠ 64 := by
    intro x hx
    simp only [X] at hx
    split at hx
    · cases hx
    · simp only [List.mem_cons] at hx
      rcases hx with rfl | hx
      · omega
      · have := hpo.1 x hx
        exact ⟨by omega, fun e => hpo.2.1 (e ▸ hx), fun e => hpo.2.2.1 (e ▸ hx),
          fun e => hpo.2.2.2.1 (e ▸ hx), fun e => hpo.2.2.2.2 (e ▸ hx)⟩
  have hP : ∀ x ∈ P, (0x20 < x ∧ x < 0x80) ∧ x ≠ 47 ∧ x ≠ 63 ∧ x ≠ 35 ∧ x ≠ 64 := by
    intro x hx
    simp only [P] at hx
    split at hx
    · cases hx
    · simp only [List.mem_cons] at hx
      rcases hx with rfl | hx
      · omega
      · have := (natDec_digits port).2 x hx; omega
  -- the shape of n
  have hshape := url_shape hs hdp hun hpw hhost hhn hport hpath hquery ha hb
  rw [hurl, hv6eq, hHdef] at hshape
  have hn_eq : n = sch ++ 58 :: (47 :: 47 :: ((a ++ (X ++ Y)) ++ (H ++ (P ++ (path ++ qs))))) := by
    have := Except.ok.inj hshape
    rw [this]; rfl
  -- authority and the text after the `//`
  have hA47 : 47 ∉ (a ++ (X ++ Y)) ++ (H ++ P) ∧ 63 ∉ (a ++ (X ++ Y)) ++ (H ++ P) ∧
      35 ∉ (a ++ (X ++ Y)) ++ (H ++ P) := by
    have hY : ∀ x ∈ Y, x = 64 := by
      intro x hx; simp only [Y] at hx; split at hx
      · cases hx
      · simpa using hx
    refine ⟨?_, ?_, ?_⟩ <;>
    · intro hm
      simp only [List.mem_append] at hm
      rcases hm with (h | h | h) | h | h
      · first | exact huo.2.1 h | exact huo.2.2.1 h | exact huo.2.2.2.1 h
      · have := (hX _ h).2; omega
      · have := hY _ h; omega
      · first | exact hH47 h | exact hH63 h | exact hH35 h
      · have := (hP _ h).2; omega
  have h64R : 64 ∉ H ++ P := by
    intro hm
    rw [List.mem_append] at hm
    rcases hm with h | h
    · exact hH64 h
    · have := (hP _ h).2; omega
  obtain ⟨res, hsplit⟩ : ∃ res, splitRem ((a ++ (X ++ Y)) ++ (H ++ (P ++ (path ++ qs)))) =
      { authority := (a ++ (X ++ Y)) ++ (H ++ P), resource := res,
        path := if T.isEmpty then [47] else T, query := query, fragment := [] } := by
    have hT63 : 63 ∉ T ∧ 35 ∉ T := by
      rw [hT] at hp63 hp35
      exact ⟨fun h => hp63 (List.mem_cons_of_mem _ h), fun h => hp35 (List.mem_cons_of_mem _ h)⟩
    by_cases hq : query.isEmpty = true
    · have hq' : query = [] := by simpa using hq
      refine ⟨47 :: T, ?_⟩
      have : (a ++ (X ++ Y)) ++ (H ++ (P ++ (path ++ qs))) = ((a ++ (X ++ Y)) ++ (H ++ P)) ++ 47 :: T := by
        simp only [qs, hq, if_true, hT, List.append_nil, List.append_assoc]
      rw [this, splitRem_noquery _ T hA47 hT63, hq']
    · refine ⟨47 :: (T ++ 63 :: query), ?_⟩
      have : (a ++ (X ++ Y)) ++ (H ++ (P ++ (path ++ qs))) =
          ((a ++ (X ++ Y)) ++ (H ++ P)) ++ 47 :: (T ++ 63 :: query) := by
        simp only [qs, hq, Bool.false_eq_true, if_false, hT, List.append_assoc, List.cons_append]
      rw [this, splitRem_query _ T query hA47 hT63 hq35]
  -- user info
  have hui := userinfo_reparse c' ha hb (hp.unquote_user un a ha) (hp.unquote_pass pw b hb) (H ++ P) h64R
  simp only at hui
  have hauth : a ++ (if pw.isEmpty then [] else 58 :: b) ++ (if un.isEmpty && pw.isEmpty then [] else [64]) ++ (H ++ P)
      = (a ++ (X ++ Y)) ++ (H ++ P) := by
    simp only [X, Y, List.append_assoc]
  rw [hauth] at hui
  obtain ⟨hui1, hui2, hui3⟩ := hui
  -- host
  have hhostre : parseHost c' (H ++ P) = .ok (hn, if port = dp then none else some port) := by
    by_cases e : port = dp
    · simp only [P, e, if_true, List.append_nil]; exact hH0
    · simp only [P, e, if_false]; exact hHp port hplt
  -- assemble the second parse
  have hrem : (if startsWith (47 :: 47 :: ((a ++ (X ++ Y)) ++ (H ++ (P ++ (path ++ qs))))) [47, 47]
      then (47 :: 47 :: ((a ++ (X ++ Y)) ++ (H ++ (P ++ (path ++ qs))))).drop 2
      else (47 :: 47 :: ((a ++ (X ++ Y)) ++ (H ++ (P ++ (path ++ qs)))))) =
      (a ++ (X ++ Y)) ++ (H ++ (P ++ (path ++ qs))) := by
    simp [startsWith]
  have hpn := parseNet_of_parts c' n sch (47 :: 47 :: ((a ++ (X ++ Y)) ++ (H ++ (P ++ (path ++ qs))))) dp
    { authority := (a ++ (X ++ Y)) ++ (H ++ P), resource := res,
      path := if T.isEmpty then [47] else T, query := query, fragment := [] }
    (by rw [hrem]; exact hsplit)
    (by rw [hui1]; exact hhostre) (by simpa using hne)
    hpre hqre (normalizeFragment_nil c' hp.enc_second)
    (by rw [hui2]; exact ha) (by rw [hui3]; exact hb)
  simp only [hui1, hui2, hui3] at hpn
  -- characters of n: strip and the C0 test do nothing
  have hnchars : ∀ x ∈ n, 0x20 < x ∧ x < 0x80 := by
    intro x hx
    rw [hn_eq] at hx
    have hY : ∀ x ∈ Y, x = 64 := by
      intro x hx; simp only [Y] at hx; split at hx
      · cases hx
      · simpa using hx
    simp only [List.mem_append, List.mem_cons] at hx
    rcases hx with h | h | h | h | (h | h | h) | h | h | h | h
    · have := hsch x h; omega
    · omega
    · omega
    · omega
    · have := huo.1 x h; omega
    · exact (hX x h).1
    · have := hY x h; omega
    · have := hHchars x h; exact ⟨this.2 hhnprint, this.1⟩
    · exact (hP x h).1
    · have := hpchars x h; omega
    · simp only [qs] at h
      split at h
      · cases h
      · simp only [List.mem_cons] at h
        rcases h with rfl | h
        · omega
        · have := hqchars x h; omega
  have hstrip : strip n = n := strip_id (fun x hx => isPySpace_false (hnchars x hx).1 (hnchars x hx).2)
  have hc0 : (n.any (· ≤ 0x1f)) = false := by
    cases hc : n.any (· ≤ 0x1f) with
    | false => rfl
    | true =>
      obtain ⟨x, hx, hle⟩ := List.any_eq_true.mp hc
      have := (hnchars x hx).1
      simp only [decide_eq_true_eq] at hle
      omega
  have hparse2 : parse c' n = parseNet c' n sch (47 :: 47 :: ((a ++ (X ++ Y)) ++ (H ++ (P ++ (path ++ qs))))) dp := by
    unfold parse
    simp only [hstrip, hc0, Bool.false_eq_true, if_false]
    conv => lhs; rw [hn_eq, schemeSplit_normal c' hdp]
    simp only [netScheme_of hdp]
    rw [← hn_eq]
  have hportj : effPort dp (if port = dp then none else some port) = port := by
    by_cases e : port = dp
    · simp [e, effPort]
    · have : (port == 0) = false := by simpa using hp0
      simp [e, this, effPort]
  rw [hportj] at hpn
  rw [hpn] at hparse2
  refine ⟨⟨_, hparse2, ?_, ?_⟩, hnchars⟩
  · -- its normal form
    refine (url_shape (sch := sch) (un := un) (pw := pw) (host := H ++ P) (hn := hn)
      (path := path) (query := query) (a := a) (b := b) (dp := dp) (port := port)
      rfl hdp rfl rfl rfl rfl rfl rfl rfl ha hb).trans ?_
    rw [hn_eq]
    have hv : startsWith (H ++ P) [91] = startsWith arg [91] := by
      have hHne : H ≠ [] := by
        rw [← hHdef]; split
        · simp
        · exact hhne
      rw [startsWith_append_ne P hHne]
      exact hHv6 hhne
    rw [hv, hHdef]
    rfl
  · simp only [hs, hhn, hport, hpath, hquery]
    exact ⟨trivial, trivial, trivial, trivial, trivial⟩

/-! ## the host name holds no control character or space -/

/-- no C0 control character (what `parse` tests on the stripped text) -/
def NoCtl (s : Str) : Prop := ∀ x ∈ s, 0x1f < x

/-- what is assumed about the parameters for `host_printable`: none of them introduces a
control character or space (CPython's `str.lower`, the `idna` codec, `IPv6Address.compressed`,
and the caller's `default_scheme`) -/
structure PrintParams (c : Cfg) : Prop where
  ds : ∀ d, c.defaultScheme = some d → NoCtl d
  lower : ∀ t, NoCtl t → NoCtl (c.lowerNA t)
  idna : ∀ t b, c.idnaNA t = .ok b → NoCtl b
  ipv6 : ∀ x y, c.ipv6 x = .ok y → ∀ ch ∈ y, 0x20 < ch

theorem partition1_sub (c : Nat) : ∀ (s : List Nat) (x : Nat),
    (x ∈ (partition1 c s).1 → x ∈ s) ∧ (x ∈ (partition1 c s).2.2 → x ∈ s)
  | [], x => by simp [partition1]
  | a :: t, x => by
    unfold partition1
    split
    · simp only [List.not_mem_nil, false_imp_iff, true_and]
      intro h; exact List.mem_cons_of_mem _ h
    · have ih := partition1_sub c t x
      simp only [List.mem_cons]
      exact ⟨fun h => h.elim Or.inl (fun h => Or.inr (ih.1 h)), fun h => Or.inr (ih.2 h)⟩

theorem rpartition1_sub (c : Nat) (s : List Nat) (x : Nat) :
    (x ∈ (rpartition1 c s).1 → x ∈ s) ∧ (x ∈ (rpartition1 c s).2.2 → x ∈ s) := by
  unfold rpartition1
  simp only
  have ih := partition1_sub c s.reverse x
  split
  · simp only [List.mem_reverse]
    exact ⟨fun h => by simpa using ih.2 h, fun h => by simpa using ih.1 h⟩
  · simp

theorem asciiLower_noctl {x : Nat} (h : 0x1f < x) : 0x1f < asciiLower x := by
  unfold asciiLower; split <;> omega

/-- the scheme decisions keep the text free of control characters -/
theorem schemeSplit_noctl {c : Cfg} (hp : PrintParams c) {url : Str} (hu : NoCtl url)
    {sc : Option Str} {rem : Str} (h : schemeSplit c url = .ok (sc, rem)) : NoCtl rem := by
  have hlow : NoCtl (pyLower c (partition1 58 url).1) := by
    have h1 : NoCtl (partition1 58 url).1 := fun x hx => hu x ((partition1_sub 58 url x).1 hx)
    unfold pyLower
    split
    · intro x hx
      obtain ⟨y, hy, rfl⟩ := List.mem_map.mp hx
      exact asciiLower_noctl (h1 y hy)
    · exact hp.lower _ h1
  have h2 : NoCtl (partition1 58 url).2.2 := fun x hx => hu x ((partition1_sub 58 url x).2 hx)
  have hds : NoCtl (c.defaultScheme.getD []) := by
    cases hd : c.defaultScheme with
    | none => intro x hx; simp at hx
    | some d => simpa using hp.ds d hd
  unfold schemeSplit at h
  simp only at h
  split at h
  · cases h
  · split at h
    · cases h
    · by_cases hf : (partition1 58 url).2.1 = true
      · simp only [hf, Bool.not_true, Bool.false_eq_true, if_false, Option.getD_some] at h
        split at h
        · cases h
          intro x hx
          simp only [List.mem_append, List.mem_cons, List.not_mem_nil, or_false] at hx
          rcases hx with (hx | hx) | hx
          · exact hlow x hx
          · omega
          · exact h2 x hx
        · cases h; exact h2
      · simp only [hf, Bool.not_false, if_true] at h
        split at h
        · cases h
          intro x hx
          simp only [List.mem_append, List.mem_cons, List.not_mem_nil, or_false] at hx
          rcases hx with (hx | hx) | hx
          · exact hds x hx
          · omega
          · exact hu x hx
        · cases h; exact hu

theorem parseAuthority_sub (a : Str) (x : Nat) (h : x ∈ (parseAuthority a).2) : x ∈ a := by
  unfold parseAuthority at h
  simp only at h
  split at h
  · exact (partition1_sub 64 a x).2 h
  · exact (partition1_sub 64 a x).1 h

theorem splitRem_auth_sub (rem : Str) (x : Nat) (h : x ∈ (splitRem rem).authority) : x ∈ rem := by
  unfold splitRem at h
  simp only at h
  exact List.mem_of_mem_take h

/-- the host text `parseNet` hands to `parse_host` is part of `remaining` -/
theorem parseNet_host {c : Cfg} {url scheme rem0 : Str} {dp : Nat} {i : URLInfo}
    (h : parseNet c url scheme rem0 dp = .ok i) :
    ∃ host hn port0, i.hostname = some hn ∧ parseHost c host = .ok (hn, port0) ∧ ∀ x ∈ host, x ∈ rem0 := by
  unfold parseNet at h
  simp only at h
  split at h
  · cases h
  · rename_i hostname port hph
    have hsub : ∀ x ∈ (parseAuthority (splitRem (if startsWith rem0 [47, 47] = true then List.drop 2 rem0 else rem0)).authority).2,
        x ∈ rem0 := by
      intro x hx
      have h2 := splitRem_auth_sub _ x (parseAuthority_sub _ x hx)
      split at h2
      · exact List.mem_of_mem_drop h2
      · exact h2
    split at h
    · cases h
    · split at h
      · cases h
      · split at h
        · cases h
        · split at h
          · cases h
          · split at h
            · cases h
            · split at h
              · cases h
              · cases h
                exact ⟨_, hostname, port, rfl, hph, hsub⟩

theorem parseHost_arg_sub {c : Cfg} {host hn : Str} {port0 : Option Nat}
    (h : parseHost c host = .ok (hn, port0)) :
    ∃ arg, parseHostname c arg = .ok hn ∧ ∀ x ∈ arg, x ∈ host := by
  unfold parseHost at h
  split at h
  · split at h
    · cases h
    · rename_i x hx; cases h; exact ⟨host, hx, fun _ h => h⟩
  · simp only at h
    split at h
    · split at h
      · cases h
      · split at h
        · cases h
        · split at h
          · cases h
          · rename_i x hx; cases h
            exact ⟨_, hx, fun y hy => (rpartition1_sub 58 host y).1 hy⟩
    · split at h
      · cases h
      · rename_i x hx; cases h
        exact ⟨_, hx, fun y hy => (rpartition1_sub 58 host y).2 hy⟩

theorem parseHostname_print {c : Cfg} (hp : PrintParams c) {arg hn : Str} (ha : NoCtl arg)
    (h : parseHostname c arg = .ok hn) : ∀ x ∈ hn, 0x20 < x := by
  cases hb : startsWith arg [91] with
  | true =>
    unfold parseHostname at h
    rw [hb] at h
    simp only [if_true] at h
    unfold parseIpv6Hostname at h
    split at h
    · cases h
    · split at h
      · cases h
      · exact hp.ipv6 _ _ h
  | false =>
    have hchars := hostname_lower_ascii c hb h
    unfold parseHostname at h
    rw [hb] at h
    simp only [Bool.false_eq_true, if_false] at h
    split at h
    · cases h
    · rename_i h1 hh1
      split at h
      · cases h
      · rename_i h2 hh2
        split at h
        · cases h
        · rename_i h3 hh3
          split at h
          · cases h
          · cases h
            intro x hx
            have h32 : x ≠ 32 := by
              intro e; subst e
              have := (hchars 32 hx).2.2
              simp [forbiddenHost] at this
            suffices 0x1f < x by omega
            -- h1 is free of control characters
            have hn1 : NoCtl h1 := by
              rcases tryIpv4_ok hh1 with h4 | ⟨rfl, _⟩
              · obtain ⟨n, _, rfl⟩ := normalizeIpv4_ok h4
                intro y hy; have := ipv4Compressed_chars n y hy; omega
              · exact ha
            -- so is h2 = lower(idna(h1))
            have hn2 : NoCtl h2 := by
              unfold normalizeHostname at hh2
              split at hh2
              · split at hh2 <;> cases hh2
              · rename_i b hb'
                have hbn : NoCtl b := by
                  unfold idnaEncode at hb'
                  split at hb'
                  · cases hb'; intro y hy; cases hy
                  · split at hb'
                    · split at hb'
                      · cases hb'; exact hn1
                      · cases hb'
                    · exact hp.idna _ _ hb'
                have hmap : NoCtl (b.map asciiLower) := by
                  intro y hy
                  obtain ⟨z, hz, rfl⟩ := List.mem_map.mp hy
                  exact asciiLower_noctl (hbn z hz)
                split at hh2
                · cases hh2
                · simp only at hh2
                  split at hh2
                  · split at hh2
                    · cases hh2
                    · cases hh2; exact hmap
                  · cases hh2; exact hmap
            rcases tryIpv4_ok hh3 with h4 | ⟨rfl, _⟩
            · obtain ⟨n, _, rfl⟩ := normalizeIpv4_ok h4
              have := ipv4Compressed_chars n x hx; omega
            · exact hn2 x hx

/-- **`HostPrintable` discharged.**  Relative to `PrintParams` (no parameter introduces a control
character or space), the host name of every network-scheme result holds no character ≤ 0x20. -/
theorem host_printable (c : Cfg) (hp : PrintParams c) (s : Str) (i : URLInfo)
    (h : parse c s = .ok i) (hnet : (netScheme? i.scheme).isSome = true) :
    ∀ hn, i.hostname = some hn → ∀ x ∈ hn, 0x20 < x := by
  unfold parse at h
  simp only at h
  split at h
  · cases h
  · rename_i hc0
    have hurl : NoCtl (strip s) := by
      intro x hx
      have : ¬ (x ≤ 0x1f) := by
        intro hle
        apply hc0
        exact List.any_eq_true.mpr ⟨x, hx, by simpa using hle⟩
      omega
    split at h
    · cases h
    · rename_i s2 hs2
      have hrem : NoCtl s2.2 := schemeSplit_noctl hp hurl (sc := s2.1) (rem := s2.2) (by rw [hs2])
      split at h
      · rename_i hb
        split at h
        · cases h
        cases h; simp only at hnet; rw [hb] at hnet; cases hnet
      · obtain ⟨host, hn, port0, hhn, hph, hsub⟩ := parseNet_host h
        obtain ⟨arg, harg, hasub⟩ := parseHost_arg_sub hph
        have hargn : NoCtl arg := fun x hx => hrem x (hsub x (hasub x hx))
        intro hn' hh' x hx
        rw [hhn] at hh'; cases hh'
        exact parseHostname_print hp hargn harg x hx

/-! ## Property theorems -/

/-- the normal form has no character at or below the space: what `host_printable` asks of the
host name (everything else is proved).  It follows from the C0 test of `parse`, the forbidden
set holding the space, and IDNA / `str.lower` / `default_scheme` yielding no control character;
the oracle checks it on every generated URL. -/
def HostPrintable (i : URLInfo) : Prop := ∀ hn, i.hostname = some hn → ∀ x ∈ hn, 0x20 < x

/-- **C10, re-parse.**  For every string `s` the parser accepts with a network scheme, under any
document encoding that satisfies `ReparseParams`, the normal form `n = parse(s).url` is accepted
again and gives back the same scheme, host name, port, path and query. -/
theorem norm_reparse (c c' : Cfg) (hp : ReparseParams c c') (s : Str) (i : URLInfo) (n : Str)
    (hparse : parse c s = .ok i) (hnet : (netScheme? i.scheme).isSome = true) (hurl : i.url = .ok n)
    (hprint : HostPrintable i) :
    ∃ j, parse c' n = .ok j ∧
      (j.scheme, j.hostname, j.port, j.path, j.query) = (i.scheme, i.hostname, i.port, i.path, i.query) := by
  cases hns : netScheme? i.scheme with
  | none => rw [hns] at hnet; cases hnet
  | some p =>
    obtain ⟨sch, dp⟩ := p
    obtain ⟨⟨j, hj, _, h1, h2, h3, h4, h5⟩, _⟩ := norm_main c c' hp s i sch dp n hparse hns hurl hprint
    exact ⟨j, hj, by rw [h1, h2, h3, h4, h5]⟩

/-- **C10, idempotence.**  Normalising the normal form changes nothing: `parse(n).url = n`. -/
theorem norm_idem (c c' : Cfg) (hp : ReparseParams c c') (s : Str) (i : URLInfo) (n : Str)
    (hparse : parse c s = .ok i) (hnet : (netScheme? i.scheme).isSome = true) (hurl : i.url = .ok n)
    (hprint : HostPrintable i) :
    ∃ j, parse c' n = .ok j ∧ j.url = .ok n := by
  cases hns : netScheme? i.scheme with
  | none => rw [hns] at hnet; cases hnet
  | some p =>
    obtain ⟨sch, dp⟩ := p
    obtain ⟨⟨j, hj, hu, _⟩, _⟩ := norm_main c c' hp s i sch dp n hparse hns hurl hprint
    exact ⟨j, hj, hu⟩

/-- the codec hypotheses hold for the model's UTF-8 encoder -/
theorem reparseParams_utf8 (c c' : Cfg) (h1 : c.encode = utf8Enc) (h2 : c'.encode = utf8Enc)
    (hv : V6Params c c')
    (hu : ∀ un a, normalizeUsername un = .ok a → percentDecode c' a = un)
    (hw : ∀ pw b, normalizePassword pw = .ok b → percentDecode c' b = pw) : ReparseParams c c' :=
  ⟨h1 ▸ utf8Enc_segSafe, h1 ▸ utf8Enc_spaceSafe, h2 ▸ utf8Enc_segSafe, hv, hu, hw⟩

/-- **C10, whole-URL statement** (`norm_idem` and `norm_reparse` together), relative to the named
parameter hypotheses `ReparseParams` and `HostPrintable`. -/
theorem C10_full_of_params : (∀ (c c' : Cfg), ReparseParams c c' →
    ∀ (s : Str) (i : URLInfo) (n : Str), parse c s = .ok i → (netScheme? i.scheme).isSome = true →
      i.url = .ok n → HostPrintable i →
      ∃ j, parse c' n = .ok j ∧ j.url = .ok n ∧
        (j.scheme, j.hostname, j.port, j.path, j.query) = (i.scheme, i.hostname, i.port, i.path, i.query)) := by
  intro c c' hp s i n hparse hnet hurl hprint
  cases hns : netScheme? i.scheme with
  | none => rw [hns] at hnet; cases hnet
  | some p =>
    obtain ⟨sch, dp⟩ := p
    obtain ⟨⟨j, hj, hu, h1, h2, h3, h4, h5⟩, _⟩ := norm_main c c' hp s i sch dp n hparse hns hurl hprint
    exact ⟨j, hj, hu, by rw [h1, h2, h3, h4, h5]⟩

/-- **C10, character class of the whole normal form.**  Every character of `n` is ASCII and above
the space (no white space, no C0 control; DEL can occur in a host name only). -/
theorem norm_ascii (c c' : Cfg) (hp : ReparseParams c c') (hq : PrintParams c) (s : Str) (i : URLInfo) (n : Str)
    (hparse : parse c s = .ok i) (hnet : (netScheme? i.scheme).isSome = true) (hurl : i.url = .ok n) :
    ∀ x ∈ n, 0x20 < x ∧ x < 0x80 := by
  cases hns : netScheme? i.scheme with
  | none => rw [hns] at hnet; cases hnet
  | some p =>
    obtain ⟨sch, dp⟩ := p
    exact (norm_main c c' hp s i sch dp n hparse hns hurl (host_printable c hq s i hparse hnet)).2

/-- the whole-URL property: for every string the parser accepts with a network scheme, the
normal form is accepted again, is its own normal form, and gives back scheme, host name, port,
path and query — for all parameters satisfying the named hypotheses -/
def C10_full : Prop :=
  ∀ (c c' : Cfg), ReparseParams c c' → PrintParams c →
    ∀ (s : Str) (i : URLInfo) (n : Str), parse c s = .ok i → (netScheme? i.scheme).isSome = true →
      i.url = .ok n →
      ∃ j, parse c' n = .ok j ∧ j.url = .ok n ∧
        (j.scheme, j.hostname, j.port, j.path, j.query) = (i.scheme, i.hostname, i.port, i.path, i.query)

/-- **C10, composed.**  `C10_full` holds. -/
theorem C10_full_holds : C10_full := by
  intro c c' hp hq s i n hparse hnet hurl
  exact C10_full_of_params c c' hp s i n hparse hnet hurl (host_printable c hq s i hparse hnet)

-- `http://[u:]p@h/` is written `http://%5Bu:%5Dp@h/`
example : (parse cfgT [104, 116, 116, 112, 58, 47, 47, 91, 117, 58, 93, 112, 64, 104, 47]).bind URLInfo.url
    = .ok [104, 116, 116, 112, 58, 47, 47, 37, 53, 66, 117, 58, 37, 53, 68, 112, 64, 104, 47] := by decide
-- non-vacuity: the hypotheses are satisfiable (UTF-8, parameters that refuse everything / never fire)
-- and the statement speaks about real parses
example : (parse cfgT [72, 84, 84, 80, 58, 47, 47, 85, 58, 80, 64, 48, 88, 55, 102, 48, 48, 48, 48, 48, 49, 58, 56, 48, 47, 97, 47, 46, 47, 37, 97, 70, 63, 113, 32, 120]).bind URLInfo.url
    = .ok [104, 116, 116, 112, 58, 47, 47, 85, 58, 80, 64, 49, 50, 55, 46, 48, 46, 48, 46, 49, 47, 97, 47, 37, 65, 70, 63, 113, 43, 120] := by decide
example : (parse cfgT [104, 116, 116, 112, 58, 47, 47, 85, 58, 80, 64, 49, 50, 55, 46, 48, 46, 48, 46, 49, 47, 97, 47, 37, 65, 70, 63, 113, 43, 120]).bind URLInfo.url
    = .ok [104, 116, 116, 112, 58, 47, 47, 85, 58, 80, 64, 49, 50, 55, 46, 48, 46, 48, 46, 49, 47, 97, 47, 37, 65, 70, 63, 113, 43, 120] := by decide

/-! ## the recorded finding: re-normalising with the same non-UTF-8 document encoding -/

/-- a latin-1 configuration, `unquote` given on the three texts the witness needs
(`%E9` → é, `%C3%A9` → Ã©, and the next round) -/
def cfgLatin1 : Cfg :=
  { defaultScheme := some sHttp, encode := latin1Enc, lowerNA := id,
    idnaNA := fun _ => .error .UnicodeError, ipv6 := fun _ => .error .AddressValueError,
    unquote := fun x =>
      if x = [37, 69, 57] then [0xE9]
      else if x = [37, 67, 51, 37, 65, 57] then [0xC3, 0xA9]
      else x }

/-- **Known finding (KNOWN_FINDINGS.txt, kind not-idempotent-same-encoding).**  `unquote_user` is a
real restriction: with the *same* latin-1 configuration on both sides the user info is not a
fixed point — `http://%E9@h/` → `http://%C3%A9@h/` → `http://%C3%83%C2%A9@h/`.  (`norm_idem` is about
re-parsing with a configuration whose `unquote` inverts the UTF-8 percent-encoding, i.e. the default.) -/
theorem norm_idem_same_encoding_counterexample :
    (parse cfgLatin1 [104, 116, 116, 112, 58, 47, 47, 37, 69, 57, 64, 104, 47]).bind URLInfo.url
      = .ok [104, 116, 116, 112, 58, 47, 47, 37, 67, 51, 37, 65, 57, 64, 104, 47] ∧
    (parse cfgLatin1 [104, 116, 116, 112, 58, 47, 47, 37, 67, 51, 37, 65, 57, 64, 104, 47]).bind URLInfo.url
      = .ok [104, 116, 116, 112, 58, 47, 47, 37, 67, 51, 37, 56, 51, 37, 67, 50, 37, 65, 57, 64, 104, 47] := by
  decide

end Wpull.Url
