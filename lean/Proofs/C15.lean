/-
C15 — Downloaded files are always written inside the download directory.
Theorems over the model `Wpull.Path` (lean/Wpull/Path.lean).
-/
import Wpull.Path
namespace Wpull.Path
open Wpull

/-! ## predicates -/

/-- What the property demands of one path component below the prefix: a single
non-empty name, neither "." nor "..", without the separator, and without C0
control characters unless that restriction was disabled. -/
def SafeComponent (noControl : Bool) (r : Str) : Prop :=
  r ≠ [] ∧ r ≠ dot ∧ r ≠ dotdot ∧ 47 ∉ r ∧ (noControl = true → ∀ c ∈ r, 32 ≤ c)

/-- a character that may appear in a component under `cfg` -/
def GoodChar (cfg : SafeCfg) (c : Nat) : Prop :=
  c ≠ 47 ∧ (cfg.noControl = true → 32 ≤ c) ∧ (cfg.os = .windows → c ∉ winChars)

/-- Hypothesis on the logged case table: a non-ASCII code point lowers / uppers to a
non-empty string of non-ASCII code points and ASCII letters (checked exhaustively
against the interpreter on every run). -/
def TableSane (tbl : Nat → Str) : Prop :=
  ∀ c, 128 ≤ c → tbl c ≠ [] ∧ ∀ x ∈ tbl c, 128 ≤ x ∨ isAsciiAlpha x = true

def isLowerHex (c : Nat) : Bool := isAsciiDigit c || (97 ≤ c && c ≤ 102)

/-- a digest: `hexdigest()` starts with 8 lower-case hex digits -/
def HexDigest (d : Str) : Prop := 8 ≤ d.length ∧ ∀ x ∈ d.take 8, isLowerHex x = true

/-- Hypothesis on the hash parameter: every value is a hex digest (checked on every
logged digest). -/
def ShaSane (sha : Str → Str) : Prop := ∀ x, HexDigest (sha x)

/-! ## helper lemmas -/

theorem goodChar_of_alpha (cfg : SafeCfg) {x : Nat} (h : isAsciiAlpha x = true) : GoodChar cfg x := by
  simp [isAsciiAlpha, isAsciiUpper, isAsciiLower] at h
  simp [GoodChar, winChars]
  omega

theorem goodChar_of_ge128 (cfg : SafeCfg) {x : Nat} (h : 128 ≤ x) : GoodChar cfg x := by
  simp [GoodChar, winChars]
  omega

theorem goodChar_hexChar (cfg : SafeCfg) {n : Nat} (h : n < 16) : GoodChar cfg (hexChar n) := by
  simp [GoodChar, winChars, hexChar]
  split <;> omega

theorem goodChar_lowerHex (cfg : SafeCfg) {x : Nat} (h : isLowerHex x = true) : GoodChar cfg x := by
  simp [isLowerHex, isAsciiDigit] at h
  simp [GoodChar, winChars]
  omega

theorem pct_good (cfg : SafeCfg) {b : Nat} (hb : b < 256) : ∀ x ∈ pct b, GoodChar cfg x := by
  intro x hx
  simp [pct] at hx
  rcases hx with rfl | rfl | rfl
  · simp [GoodChar, winChars]
  · exact goodChar_hexChar cfg (by omega)
  · exact goodChar_hexChar cfg (by omega)

theorem utf8_lt (c : Nat) : ∀ b ∈ utf8 c, b < 256 := by
  intro b hb
  unfold utf8 at hb
  split at hb
  · simp at hb; omega
  · split at hb
    · simp at hb; omega
    · split at hb <;> simp at hb <;> omega

theorem utf8_ne_nil (c : Nat) : utf8 c ≠ [] := by
  unfold utf8; split
  · simp
  · split
    · simp
    · split <;> simp

/-- what the encoder makes of one code point: non-empty, only good characters,
and it starts with a dot only if the code point is the dot (which is kept) -/
theorem encChar_spec (cfg : SafeCfg) (hos : cfg.os ≠ .other) (c : Nat) :
    (∀ x ∈ encChar cfg c, GoodChar cfg x) ∧
    (∃ h t, encChar cfg c = h :: t ∧ (h = 46 → c = 46 ∧ t = [])) := by
  unfold encChar
  split
  · rename_i hc
    split
    · rename_i he
      refine ⟨pct_good cfg (by omega), 37, _, rfl, by simp⟩
    · rename_i he
      refine ⟨?_, c, [], rfl, by simp⟩
      intro x hx
      simp at hx; subst hx
      have he : escapes cfg x = false := by simpa using he
      simp only [escapes, Bool.or_eq_false_iff, Bool.and_eq_false_iff] at he
      obtain ⟨⟨⟨h1, h2⟩, h3⟩, _⟩ := he
      refine ⟨?_, ?_, ?_⟩
      · intro h47; subst h47
        cases hcfg : cfg.os <;> simp [hcfg, winChars] at h1 h3 hos
      · intro hnc
        simp [hnc] at h2
        omega
      · intro hw
        simpa [hw] using h3
  · rename_i hc
    split
    · refine ⟨?_, ?_⟩
      · intro x hx
        simp only [List.mem_flatMap] at hx
        obtain ⟨b, hb, hx⟩ := hx
        exact pct_good cfg (utf8_lt c b hb) x hx
      · cases hu : utf8 c with
        | nil => exact absurd hu (utf8_ne_nil c)
        | cons b t =>
          exact ⟨37, hexChar (b / 16) :: hexChar (b % 16) :: t.flatMap pct, by simp [pct], by simp⟩
    · refine ⟨?_, c, [], rfl, by omega⟩
      intro x hx
      simp at hx; subst hx
      exact goodChar_of_ge128 cfg (by omega)

theorem encChar_dot (cfg : SafeCfg) : encChar cfg 46 = [46] := by
  simp [encChar, escapes, winChars]

/-- a per-character expansion that keeps the dot and starts every other image
with a non-dot maps only dot strings to dot strings -/
theorem flatMap_eq_dots (f : Nat → Str) (hdot : f 46 = [46]) :
    ∀ (s : Str), (∀ c ∈ s, ∃ h t, f c = h :: t ∧ (h = 46 → c = 46)) →
      ∀ (k : Nat), s.flatMap f = List.replicate k 46 → s = List.replicate k 46 := by
  intro s
  induction s with
  | nil => intro _ k h; cases k <;> simp_all [List.replicate]
  | cons c t ih =>
    intro hne k h
    obtain ⟨hd, tl, hf, hh⟩ := hne c (by simp)
    cases k with
    | zero => simp [hf] at h
    | succ k =>
      simp only [List.flatMap_cons, hf, List.replicate_succ, List.cons_append, List.cons.injEq] at h
      obtain ⟨h1, h2⟩ := h
      have hc := hh h1
      subst hc
      rw [hdot] at hf
      simp only [List.cons.injEq] at hf
      obtain ⟨_, htl⟩ := hf
      subst htl
      simp only [List.nil_append] at h2
      rw [ih (fun c hc => hne c (by simp [hc])) k h2, List.replicate_succ]

theorem not_dotname_of_flatMap (f : Nat → Str) (hdot : f 46 = [46]) (s : Str)
    (hne : ∀ c ∈ s, ∃ h t, f c = h :: t ∧ (h = 46 → c = 46))
    (h0 : s ≠ []) (h1 : s ≠ dot) (h2 : s ≠ dotdot) :
    s.flatMap f ≠ [] ∧ s.flatMap f ≠ dot ∧ s.flatMap f ≠ dotdot := by
  refine ⟨fun h => h0 ?_, fun h => h1 ?_, fun h => h2 ?_⟩
  · exact flatMap_eq_dots f hdot s hne 0 h
  · exact flatMap_eq_dots f hdot s hne 1 h
  · exact flatMap_eq_dots f hdot s hne 2 h

/-- the stages of `safe_filename` all keep this invariant -/
def Inv (cfg : SafeCfg) (s : Str) : Prop :=
  (s ≠ [] ∧ s ≠ dot ∧ s ≠ dotdot) ∧ ∀ x ∈ s, GoodChar cfg x

theorem quoteName_inv (cfg : SafeCfg) (hos : cfg.os ≠ .other) (name q : Str) (hn : name ≠ [])
    (h : quoteName cfg name = .ok q) : Inv cfg q := by
  unfold quoteName at h
  split at h
  · cases h
    refine ⟨by decide, ?_⟩
    intro x hx
    have : x = 37 ∨ x = 50 ∨ x = 69 := by simpa [lit] using hx
    rcases this with rfl | rfl | rfl <;> simp [GoodChar, winChars]
  · split at h
    · cases h
      refine ⟨by decide, ?_⟩
      intro x hx
      have : x = 37 ∨ x = 50 ∨ x = 69 := by
        have : x ∈ [37, 50, 69, 37, 50, 69] := by simpa [lit] using hx
        simp at this; omega
      rcases this with rfl | rfl | rfl <;> simp [GoodChar, winChars]
    · split at h
      · cases h
      · cases h
        rename_i h1 h2 _
        refine ⟨not_dotname_of_flatMap _ (encChar_dot cfg) name ?_ hn h1 h2, ?_⟩
        · intro c _
          obtain ⟨_, hd, tl, he, hh⟩ := encChar_spec cfg hos c
          exact ⟨hd, tl, he, fun h => (hh h).1⟩
        · intro x hx
          simp only [List.mem_flatMap] at hx
          obtain ⟨c, _, hx⟩ := hx
          exact (encChar_spec cfg hos c).1 x hx

theorem winTrailing_eq (cfg : SafeCfg) (q w : Str) (h : winTrailing cfg q = .ok w) : w = q := by
  unfold winTrailing at h
  split at h
  · split at h
    · cases h
    · split at h <;> cases h
      rfl
  · cases h; rfl

theorem truncate_inv (cfg : SafeCfg) (sha : Str → Str) (w : Str) (hd : ShaSane sha) (hw : Inv cfg w) :
    Inv cfg (truncate cfg sha w) := by
  unfold truncate
  split
  · obtain ⟨hlen, hhex⟩ := hd w
    generalize sha w = d at hlen hhex ⊢
    have hl : (d.take 8).length = 8 := by simp; omega
    have h8 : 8 ≤ (List.take (cfg.maxLen - 8).toNat w ++ List.take 8 d).length := by
      rw [List.length_append, hl]; omega
    refine ⟨⟨?_, ?_, ?_⟩, ?_⟩
    · intro h; rw [h] at h8; simp at h8
    · intro h; rw [h] at h8; simp [dot] at h8
    · intro h; rw [h] at h8; simp [dotdot] at h8
    · intro x hx
      rcases List.mem_append.mp hx with hx | hx
      · exact hw.2 x (List.mem_of_mem_take hx)
      · exact goodChar_lowerHex cfg (hhex x hx)
  · exact hw

theorem foldChar_spec (cfg : SafeCfg) (tbl : Nat → Str) (ht : TableSane tbl) (m : CaseMode) (c : Nat)
    (hc : GoodChar cfg c) :
    (∀ x ∈ foldChar tbl m c, GoodChar cfg x) ∧
    (∃ h t, foldChar tbl m c = h :: t ∧ (h = 46 → c = 46)) := by
  cases m with
  | none => exact ⟨by simpa [foldChar] using hc, c, [], rfl, id⟩
  | lower =>
    simp only [foldChar]
    split
    · refine ⟨?_, asciiLower c, [], rfl, ?_⟩
      · intro x hx
        simp at hx; subst hx
        unfold asciiLower
        split
        · rename_i hu
          exact goodChar_of_alpha cfg (by simp [isAsciiAlpha, isAsciiUpper, isAsciiLower] at hu ⊢; omega)
        · exact hc
      · unfold asciiLower isAsciiUpper
        split <;> simp_all <;> omega
    · rename_i h128
      obtain ⟨hne, hall⟩ := ht c (by omega)
      refine ⟨?_, ?_⟩
      · intro x hx
        rcases hall x hx with h | h
        · exact goodChar_of_ge128 cfg h
        · exact goodChar_of_alpha cfg h
      · cases hT : tbl c with
        | nil => exact absurd hT hne
        | cons h t =>
          refine ⟨h, t, rfl, ?_⟩
          intro h46
          rcases hall h (by simp [hT]) with hh | hh
          · omega
          · subst h46; simp [isAsciiAlpha, isAsciiUpper, isAsciiLower] at hh
  | upper =>
    simp only [foldChar]
    split
    · refine ⟨?_, asciiUpper c, [], rfl, ?_⟩
      · intro x hx
        simp at hx; subst hx
        unfold asciiUpper
        split
        · rename_i hu
          exact goodChar_of_alpha cfg (by simp [isAsciiAlpha, isAsciiUpper, isAsciiLower] at hu ⊢; omega)
        · exact hc
      · unfold asciiUpper isAsciiLower
        split <;> simp_all <;> omega
    · rename_i h128
      obtain ⟨hne, hall⟩ := ht c (by omega)
      refine ⟨?_, ?_⟩
      · intro x hx
        rcases hall x hx with h | h
        · exact goodChar_of_ge128 cfg h
        · exact goodChar_of_alpha cfg h
      · cases hT : tbl c with
        | nil => exact absurd hT hne
        | cons h t =>
          refine ⟨h, t, rfl, ?_⟩
          intro h46
          rcases hall h (by simp [hT]) with hh | hh
          · omega
          · subst h46; simp [isAsciiAlpha, isAsciiUpper, isAsciiLower] at hh

theorem foldChar_dot (tbl : Nat → Str) (m : CaseMode) : foldChar tbl m 46 = [46] := by
  cases m <;> simp [foldChar, asciiLower, asciiUpper, isAsciiUpper, isAsciiLower]

theorem foldStr_inv (cfg : SafeCfg) (tbl : Nat → Str) (ht : TableSane tbl) (m : CaseMode) (s : Str)
    (hs : Inv cfg s) : Inv cfg (foldStr tbl m s) := by
  obtain ⟨⟨h0, h1, h2⟩, hg⟩ := hs
  refine ⟨not_dotname_of_flatMap _ (foldChar_dot tbl m) s ?_ h0 h1 h2, ?_⟩
  · intro c hc
    exact (foldChar_spec cfg tbl ht m c (hg c hc)).2
  · intro x hx
    simp only [foldStr, List.mem_flatMap] at hx
    obtain ⟨c, hc, hx⟩ := hx
    exact (foldChar_spec cfg tbl ht m c (hg c hc)).1 x hx

theorem inv_safe (cfg : SafeCfg) (s : Str) (h : Inv cfg s) :
    SafeComponent cfg.noControl s ∧ (cfg.os = .windows → ∀ c ∈ s, c ∉ winChars) := by
  obtain ⟨⟨h0, h1, h2⟩, hg⟩ := h
  refine ⟨⟨h0, h1, h2, ?_, ?_⟩, ?_⟩
  · intro h47; exact (hg 47 h47).1 rfl
  · intro hnc c hc; exact (hg c hc).2.1 hnc
  · intro hw c hc; exact (hg c hc).2.2 hw

/-! ## property theorems -/

/-- **safe_component** (DESIGN.md C15, T).  For every configuration with `os_type`
unix or windows, every sane case table, every hex digest and every NON-EMPTY
name: whatever `safe_filename` returns is a single safe path component —
non-empty, not "." or "..", no "/", no C0 control unless `nocontrol`; in
Windows mode additionally none of `\|/:?"*<>`. -/
theorem safe_component (cfg : SafeCfg) (tbl : Nat → Str) (sha : Str → Str) (name r : Str)
    (hos : cfg.os ≠ .other) (ht : TableSane tbl) (hd : ShaSane sha) (hn : name ≠ [])
    (h : safeFilename cfg tbl sha name = .ok r) :
    SafeComponent cfg.noControl r ∧ (cfg.os = .windows → ∀ c ∈ r, c ∉ winChars) := by
  unfold safeFilename at h
  split at h
  · cases h
  · rename_i q hq
    split at h
    · cases h
    · rename_i w hw
      cases h
      have hwq := winTrailing_eq cfg q w hw
      subst hwq
      exact inv_safe cfg _ (foldStr_inv cfg tbl ht cfg.case _
        (truncate_inv cfg sha _ hd (quoteName_inv cfg hos name _ hn hq)))

/-! ### which inputs raise -/

theorem hexChar_ne (n : Nat) : hexChar n ≠ 32 ∧ hexChar n ≠ 46 := by
  unfold hexChar; split <;> omega

theorem encChar_last (cfg : SafeCfg) (c : Nat) :
    ∃ init l, encChar cfg c = init ++ [l] ∧ (l = 32 ↔ c = 32) ∧ (l = 46 ↔ c = 46) := by
  unfold encChar
  split
  · split
    · rename_i he
      refine ⟨[37, hexChar (c / 16)], hexChar (c % 16), by simp [pct], ?_, ?_⟩
      · constructor
        · intro h; exact absurd h (hexChar_ne _).1
        · intro h; subst h; simp [escapes, winChars] at he
      · constructor
        · intro h; exact absurd h (hexChar_ne _).2
        · intro h; subst h; simp [escapes, winChars] at he
    · exact ⟨[], c, by simp, Iff.rfl, Iff.rfl⟩
  · rename_i hc
    split
    · rcases List.eq_nil_or_concat (utf8 c) with h | ⟨L, b, h⟩
      · exact absurd h (utf8_ne_nil c)
      · refine ⟨L.flatMap pct ++ [37, hexChar (b / 16)], hexChar (b % 16), ?_, ?_, ?_⟩
        · rw [h]; simp [pct, List.flatMap_append]
        · constructor
          · intro h; exact absurd h (hexChar_ne _).1
          · intro h; omega
        · constructor
          · intro h; exact absurd h (hexChar_ne _).2
          · intro h; omega
    · exact ⟨[], c, by simp, Iff.rfl, Iff.rfl⟩

theorem quote_last (cfg : SafeCfg) (name : Str) :
    (name.flatMap (encChar cfg) = [] ↔ name = []) ∧
    ((name.flatMap (encChar cfg)).getLast? = some 32 ↔ name.getLast? = some 32) ∧
    ((name.flatMap (encChar cfg)).getLast? = some 46 ↔ name.getLast? = some 46) := by
  rcases List.eq_nil_or_concat name with h | ⟨L, c, h⟩
  · subst h; simp
  · subst h
    obtain ⟨init, l, he, h32, h46⟩ := encChar_last cfg c
    have hq : (L.concat c).flatMap (encChar cfg) = (L.flatMap (encChar cfg) ++ init) ++ [l] := by
      simp [List.concat_eq_append, List.flatMap_append, he]
    rw [hq]
    simp only [List.getLast?_concat, List.concat_eq_append, Option.some.injEq]
    refine ⟨by simp, h32, h46⟩

/-- **error_branch** (DESIGN.md C15 T, section 7 row 17).  Exactly which inputs make
`safe_filename` raise, for every configuration:
* a lone surrogate in the name → `UnicodeEncodeError` (`filename.encode('utf8')`);
* Windows mode and the empty name → `IndexError` (`new_filename[-1]`);
* Windows mode and a name (other than "." / "..") whose last character is a space
  or a dot → `ValueError`: `'{1:02X}'.format(str)` can never succeed, so the
  "escape the trailing character" branch is in fact "raise".
Nothing else raises; no path is produced on these inputs. -/
theorem error_branch (cfg : SafeCfg) (tbl : Nat → Str) (digest : Str → Str) (name : Str) (e : PyExc) :
    safeFilename cfg tbl digest name = .error e ↔
      (name ≠ dot ∧ name ≠ dotdot) ∧
      ((name.any isSurrogate = true ∧ e = .UnicodeEncodeError) ∨
       (name.any isSurrogate = false ∧ cfg.os = .windows ∧
         ((name = [] ∧ e = .IndexError) ∨
          ((name.getLast? = some 32 ∨ name.getLast? = some 46) ∧ e = .ValueError)))) := by
  by_cases hd : name = dot
  · subst hd
    cases hos : cfg.os <;> simp [safeFilename, quoteName, winTrailing, hos, lit, dot, dotdot]
  by_cases hdd : name = dotdot
  · subst hdd
    cases hos : cfg.os <;> simp [safeFilename, quoteName, winTrailing, hos, lit, dot, dotdot]
  by_cases hs : name.any isSurrogate = true
  · have : safeFilename cfg tbl digest name = .error .UnicodeEncodeError := by
      simp [safeFilename, quoteName, hd, hdd, hs]
    rw [this]
    simp [hd, hdd, hs]
    exact eq_comm
  · have hs' : name.any isSurrogate = false := by simpa using hs
    obtain ⟨hnil, h32, h46⟩ := quote_last cfg name
    have hq : quoteName cfg name = .ok (name.flatMap (encChar cfg)) := by
      simp [quoteName, hd, hdd, hs]
    by_cases hw : cfg.os = .windows
    · cases hl : (name.flatMap (encChar cfg)).getLast? with
      | none =>
        have hn : name = [] := hnil.mp (List.getLast?_eq_none_iff.mp hl)
        have : safeFilename cfg tbl digest name = .error .IndexError := by
          simp [safeFilename, hq, winTrailing, hw, hl]
        rw [this]
        subst hn
        simp [hw, dot, dotdot]
        exact eq_comm
      | some c =>
        have hn : name ≠ [] := by
          intro h; rw [h] at hl; simp at hl
        by_cases hc : c = 32 ∨ c = 46
        · have : safeFilename cfg tbl digest name = .error .ValueError := by
            rcases hc with rfl | rfl <;> simp [safeFilename, hq, winTrailing, hw, hl]
          rw [this]
          have hlast : name.getLast? = some 32 ∨ name.getLast? = some 46 := by
            rcases hc with rfl | rfl
            · exact Or.inl (h32.mp hl)
            · exact Or.inr (h46.mp hl)
          simp [hd, hdd, hs', hw, hn, hlast]
          exact eq_comm
        · have hok : ∃ r, safeFilename cfg tbl digest name = .ok r := by
            have h1 : c ≠ 32 := fun h => hc (Or.inl h)
            have h2 : c ≠ 46 := fun h => hc (Or.inr h)
            exact ⟨foldStr tbl cfg.case (truncate cfg digest (name.flatMap (encChar cfg))),
              by simp [safeFilename, hq, winTrailing, hw, hl, h1, h2]⟩
          obtain ⟨r, hr⟩ := hok
          rw [hr]
          have hlast : ¬(name.getLast? = some 32 ∨ name.getLast? = some 46) := by
            rintro (h | h)
            · have := h32.mpr h; rw [hl] at this; simp at this; exact hc (Or.inl this)
            · have := h46.mpr h; rw [hl] at this; simp at this; exact hc (Or.inr this)
          simp [hs', hn, hlast]
    · have hok : ∃ r, safeFilename cfg tbl digest name = .ok r :=
        ⟨foldStr tbl cfg.case (truncate cfg digest (name.flatMap (encChar cfg))),
          by simp [safeFilename, hq, winTrailing, hw]⟩
      obtain ⟨r, hr⟩ := hok
      rw [hr]
      simp [hw, hs']

end Wpull.Path
