/-
C15 — Downloaded files are always written inside the download directory.
Theorems over the model `Wpull.Path` (lean/Wpull/Path.lean).
-/
import Wpull.Path
namespace Wpull.Path
open Wpull

/-! ## predicates -/

/-- What the property demands of one path component below the prefix: a single
non-empty name, neither "." nor "..", without the separator, and without C0
control characters unless that restriction was disabled. -/
def SafeComponent (noControl : Bool) (r : Str) : Prop :=
  r ≠ [] ∧ r ≠ dot ∧ r ≠ dotdot ∧ 47 ∉ r ∧ (noControl = true → ∀ c ∈ r, 32 ≤ c)

/-- a character that may appear in a component under `cfg` -/
def GoodChar (cfg : SafeCfg) (c : Nat) : Prop :=
  c ≠ 47 ∧ (cfg.noControl = true → 32 ≤ c) ∧ (cfg.os = .windows → c ∉ winChars)

/-- Hypothesis on the logged case table: a non-ASCII code point lowers / uppers to a
non-empty string of non-ASCII code points and ASCII letters (checked exhaustively
against the interpreter on every run). -/
def TableSane (tbl : Nat → Str) : Prop :=
  ∀ c, 128 ≤ c → tbl c ≠ [] ∧ ∀ x ∈ tbl c, 128 ≤ x ∨ isAsciiAlpha x = true

def isLowerHex (c : Nat) : Bool := isAsciiDigit c || (97 ≤ c && c ≤ 102)

/-- a digest: `hexdigest()` starts with 8 lower-case hex digits -/
def HexDigest (d : Str) : Prop := 8 ≤ d.length ∧ ∀ x ∈ d.take 8, isLowerHex x = true

/-- Hypothesis on the hash parameter: every value is a hex digest (checked on every
logged digest). -/
def ShaSane (sha : Str → Str) : Prop := ∀ x, HexDigest (sha x)

/-! ## helper lemmas -/

theorem goodChar_of_alpha (cfg : SafeCfg) {x : Nat} (h : isAsciiAlpha x = true) : GoodChar cfg x := by
  simp [isAsciiAlpha, isAsciiUpper, isAsciiLower] at h
  simp [GoodChar, winChars]
  omega

theorem goodChar_of_ge128 (cfg : SafeCfg) {x : Nat} (h : 128 ≤ x) : GoodChar cfg x := by
  simp [GoodChar, winChars]
  omega

theorem goodChar_hexChar (cfg : SafeCfg) {n : Nat} (h : n < 16) : GoodChar cfg (hexChar n) := by
  simp [GoodChar, winChars, hexChar]
  split <;> omega

theorem goodChar_lowerHex (cfg : SafeCfg) {x : Nat} (h : isLowerHex x = true) : GoodChar cfg x := by
  simp [isLowerHex, isAsciiDigit] at h
  simp [GoodChar, winChars]
  omega

theorem pct_good (cfg : SafeCfg) {b : Nat} (hb : b < 256) : ∀ x ∈ pct b, GoodChar cfg x := by
  intro x hx
  simp [pct] at hx
  rcases hx with rfl | rfl | rfl
  · simp [GoodChar, winChars]
  · exact goodChar_hexChar cfg (by omega)
  · exact goodChar_hexChar cfg (by omega)

theorem utf8_lt (c : Nat) : ∀ b ∈ utf8 c, b < 256 := by
  intro b hb
  unfold utf8 at hb
  split at hb
  · simp at hb; omega
  · split at hb
    · simp at hb; omega
    · split at hb <;> simp at hb <;> omega

theorem utf8_ne_nil (c : Nat) : utf8 c ≠ [] := by
  unfold utf8; split
  · simp
  · split
    · simp
    · split <;> simp

/-- what the encoder makes of one code point: non-empty, only good characters,
and it starts with a dot only if the code point is the dot (which is kept) -/
theorem encChar_spec (cfg : SafeCfg) (hos : cfg.os ≠ .other) (c : Nat) :
    (∀ x ∈ encChar cfg c, GoodChar cfg x) ∧
    (∃ h t, encChar cfg c = h :: t ∧ (h = 46 → c = 46 ∧ t = [])) := by
  unfold encChar
  split
  · rename_i hc
    split
    · rename_i he
      refine ⟨pct_good cfg (by omega), 37, _, rfl, by simp⟩
    · rename_i he
      refine ⟨?_, c, [], rfl, by simp⟩
      intro x hx
      simp at hx; subst hx
      have he : escapes cfg x = false := by simpa using he
      simp only [escapes, Bool.or_eq_false_iff, Bool.and_eq_false_iff] at he
      obtain ⟨⟨⟨h1, h2⟩, h3⟩, _⟩ := he
      refine ⟨?_, ?_, ?_⟩
      · intro h47; subst h47
        cases hcfg : cfg.os <;> simp [hcfg, winChars] at h1 h3 hos
      · intro hnc
        simp [hnc] at h2
        omega
      · intro hw
        simpa [hw] using h3
  · rename_i hc
    split
    · refine ⟨?_, ?_⟩
      · intro x hx
        simp only [List.mem_flatMap] at hx
        obtain ⟨b, hb, hx⟩ := hx
        exact pct_good cfg (utf8_lt c b hb) x hx
      · cases hu : utf8 c with
        | nil => exact absurd hu (utf8_ne_nil c)
        | cons b t =>
          exact ⟨37, hexChar (b / 16) :: hexChar (b % 16) :: t.flatMap pct, by simp [pct], by simp⟩
    · refine ⟨?_, c, [], rfl, by omega⟩
      intro x hx
      simp at hx; subst hx
      exact goodChar_of_ge128 cfg (by omega)

theorem encChar_dot (cfg : SafeCfg) : encChar cfg 46 = [46] := by
  simp [encChar, escapes, winChars]

/-- a per-character expansion that keeps the dot and starts every other image
with a non-dot maps only dot strings to dot strings -/
theorem flatMap_eq_dots (f : Nat → Str) (hdot : f 46 = [46]) :
    ∀ (s : Str), (∀ c ∈ s, ∃ h t, f c = h :: t ∧ (h = 46 → c = 46)) →
      ∀ (k : Nat), s.flatMap f = List.replicate k 46 → s = List.replicate k 46 := by
  intro s
  induction s with
  | nil => intro _ k h; cases k <;> simp_all [List.replicate]
  | cons c t ih =>
    intro hne k h
    obtain ⟨hd, tl, hf, hh⟩ := hne c (by simp)
    cases k with
    | zero => simp [hf] at h
    | succ k =>
      simp only [List.flatMap_cons, hf, List.replicate_succ, List.cons_append, List.cons.injEq] at h
      obtain ⟨h1, h2⟩ := h
      have hc := hh h1
      subst hc
      rw [hdot] at hf
      simp only [List.cons.injEq] at hf
      obtain ⟨_, htl⟩ := hf
      subst htl
      simp only [List.nil_append] at h2
      rw [ih (fun c hc => hne c (by simp [hc])) k h2, List.replicate_succ]

theorem not_dotname_of_flatMap (f : Nat → Str) (hdot : f 46 = [46]) (s : Str)
    (hne : ∀ c ∈ s, ∃ h t, f c = h :: t ∧ (h = 46 → c = 46))
    (h0 : s ≠ []) (h1 : s ≠ dot) (h2 : s ≠ dotdot) :
    s.flatMap f ≠ [] ∧ s.flatMap f ≠ dot ∧ s.flatMap f ≠ dotdot := by
  refine ⟨fun h => h0 ?_, fun h => h1 ?_, fun h => h2 ?_⟩
  · exact flatMap_eq_dots f hdot s hne 0 h
  · exact flatMap_eq_dots f hdot s hne 1 h
  · exact flatMap_eq_dots f hdot s hne 2 h

/-- the stages of `safe_filename` all keep this invariant -/
def Inv (cfg : SafeCfg) (s : Str) : Prop :=
  (s ≠ [] ∧ s ≠ dot ∧ s ≠ dotdot) ∧ ∀ x ∈ s, GoodChar cfg x

theorem quoteName_inv (cfg : SafeCfg) (hos : cfg.os ≠ .other) (name q : Str) (hn : name ≠ [])
    (h : quoteName cfg name = .ok q) : Inv cfg q := by
  unfold quoteName at h
  split at h
  · cases h
    refine ⟨by decide, ?_⟩
    intro x hx
    have : x = 37 ∨ x = 50 ∨ x = 69 := by simpa [lit] using hx
    rcases this with rfl | rfl | rfl <;> simp [GoodChar, winChars]
  · split at h
    · cases h
      refine ⟨by decide, ?_⟩
      intro x hx
      have : x = 37 ∨ x = 50 ∨ x = 69 := by
        have : x ∈ [37, 50, 69, 37, 50, 69] := by simpa [lit] using hx
        simp at this; omega
      rcases this with rfl | rfl | rfl <;> simp [GoodChar, winChars]
    · split at h
      · cases h
      · cases h
        rename_i h1 h2 _
        refine ⟨not_dotname_of_flatMap _ (encChar_dot cfg) name ?_ hn h1 h2, ?_⟩
        · intro c _
          obtain ⟨_, hd, tl, he, hh⟩ := encChar_spec cfg hos c
          exact ⟨hd, tl, he, fun h => (hh h).1⟩
        · intro x hx
          simp only [List.mem_flatMap] at hx
          obtain ⟨c, _, hx⟩ := hx
          exact (encChar_spec cfg hos c).1 x hx

theorem winTrailing_inv (cfg : SafeCfg) (q : Str) (hq : Inv cfg q) : Inv cfg (winTrailing cfg q) := by
  unfold winTrailing
  split
  · split
    · exact hq
    · rename_i c hc
      split
      · rename_i hcc
        have hc256 : c < 256 := by
          simp at hcc; omega
        have hlast : (q.dropLast ++ pct c).getLast? = some (hexChar (c % 16)) := by
          have : q.dropLast ++ pct c = (q.dropLast ++ [37, hexChar (c / 16)]) ++ [hexChar (c % 16)] := by
            simp [pct]
          rw [this, List.getLast?_concat]
        have hne : hexChar (c % 16) ≠ 46 := by unfold hexChar; split <;> omega
        refine ⟨⟨?_, ?_, ?_⟩, ?_⟩
        · intro h; rw [h] at hlast; simp at hlast
        · intro h; rw [h] at hlast; simp [dot] at hlast; exact hne hlast.symm
        · intro h; rw [h] at hlast; simp [dotdot] at hlast; exact hne hlast.symm
        · intro x hx
          rcases List.mem_append.mp hx with hx | hx
          · exact hq.2 x ((List.dropLast_sublist _).subset hx)
          · exact pct_good cfg hc256 x hx
      · exact hq
  · exact hq

theorem truncate_inv (cfg : SafeCfg) (sha : Str → Str) (w : Str) (hd : ShaSane sha) (hw : Inv cfg w) :
    Inv cfg (truncate cfg sha w) := by
  unfold truncate
  split
  · obtain ⟨hlen, hhex⟩ := hd w
    generalize sha w = d at hlen hhex ⊢
    have hl : (d.take 8).length = 8 := by simp; omega
    have h8 : 8 ≤ (List.take (cfg.maxLen - 8).toNat w ++ List.take 8 d).length := by
      rw [List.length_append, hl]; omega
    refine ⟨⟨?_, ?_, ?_⟩, ?_⟩
    · intro h; rw [h] at h8; simp at h8
    · intro h; rw [h] at h8; simp [dot] at h8
    · intro h; rw [h] at h8; simp [dotdot] at h8
    · intro x hx
      rcases List.mem_append.mp hx with hx | hx
      · exact hw.2 x (List.mem_of_mem_take hx)
      · exact goodChar_lowerHex cfg (hhex x hx)
  · exact hw

theorem foldChar_spec (cfg : SafeCfg) (tbl : Nat → Str) (ht : TableSane tbl) (m : CaseMode) (c : Nat)
    (hc : GoodChar cfg c) :
    (∀ x ∈ foldChar tbl m c, GoodChar cfg x) ∧
    (∃ h t, foldChar tbl m c = h :: t ∧ (h = 46 → c = 46)) := by
  cases m with
  | none => exact ⟨by simpa [foldChar] using hc, c, [], rfl, id⟩
  | lower =>
    simp only [foldChar]
    split
    · refine ⟨?_, asciiLower c, [], rfl, ?_⟩
      · intro x hx
        simp at hx; subst hx
        unfold asciiLower
        split
        · rename_i hu
          exact goodChar_of_alpha cfg (by simp [isAsciiAlpha, isAsciiUpper, isAsciiLower] at hu ⊢; omega)
        · exact hc
      · unfold asciiLower isAsciiUpper
        split <;> simp_all <;> omega
    · rename_i h128
      obtain ⟨hne, hall⟩ := ht c (by omega)
      refine ⟨?_, ?_⟩
      · intro x hx
        rcases hall x hx with h | h
        · exact goodChar_of_ge128 cfg h
        · exact goodChar_of_alpha cfg h
      · cases hT : tbl c with
        | nil => exact absurd hT hne
        | cons h t =>
          refine ⟨h, t, rfl, ?_⟩
          intro h46
          rcases hall h (by simp [hT]) with hh | hh
          · omega
          · subst h46; simp [isAsciiAlpha, isAsciiUpper, isAsciiLower] at hh
  | upper =>
    simp only [foldChar]
    split
    · refine ⟨?_, asciiUpper c, [], rfl, ?_⟩
      · intro x hx
        simp at hx; subst hx
        unfold asciiUpper
        split
        · rename_i hu
          exact goodChar_of_alpha cfg (by simp [isAsciiAlpha, isAsciiUpper, isAsciiLower] at hu ⊢; omega)
        · exact hc
      · unfold asciiUpper isAsciiLower
        split <;> simp_all <;> omega
    · rename_i h128
      obtain ⟨hne, hall⟩ := ht c (by omega)
      refine ⟨?_, ?_⟩
      · intro x hx
        rcases hall x hx with h | h
        · exact goodChar_of_ge128 cfg h
        · exact goodChar_of_alpha cfg h
      · cases hT : tbl c with
        | nil => exact absurd hT hne
        | cons h t =>
          refine ⟨h, t, rfl, ?_⟩
          intro h46
          rcases hall h (by simp [hT]) with hh | hh
          · omega
          · subst h46; simp [isAsciiAlpha, isAsciiUpper, isAsciiLower] at hh

theorem foldChar_dot (tbl : Nat → Str) (m : CaseMode) : foldChar tbl m 46 = [46] := by
  cases m <;> simp [foldChar, asciiLower, asciiUpper, isAsciiUpper, isAsciiLower]

theorem foldStr_inv (cfg : SafeCfg) (tbl : Nat → Str) (ht : TableSane tbl) (m : CaseMode) (s : Str)
    (hs : Inv cfg s) : Inv cfg (foldStr tbl m s) := by
  obtain ⟨⟨h0, h1, h2⟩, hg⟩ := hs
  refine ⟨not_dotname_of_flatMap _ (foldChar_dot tbl m) s ?_ h0 h1 h2, ?_⟩
  · intro c hc
    exact (foldChar_spec cfg tbl ht m c (hg c hc)).2
  · intro x hx
    simp only [foldStr, List.mem_flatMap] at hx
    obtain ⟨c, hc, hx⟩ := hx
    exact (foldChar_spec cfg tbl ht m c (hg c hc)).1 x hx

theorem inv_safe (cfg : SafeCfg) (s : Str) (h : Inv cfg s) :
    SafeComponent cfg.noControl s ∧ (cfg.os = .windows → ∀ c ∈ s, c ∉ winChars) := by
  obtain ⟨⟨h0, h1, h2⟩, hg⟩ := h
  refine ⟨⟨h0, h1, h2, ?_, ?_⟩, ?_⟩
  · intro h47; exact (hg 47 h47).1 rfl
  · intro hnc c hc; exact (hg c hc).2.1 hnc
  · intro hw c hc; exact (hg c hc).2.2 hw

/-! ## property theorems -/

/-- **safe_component** (DESIGN.md C15, T).  For every configuration with `os_type`
unix or windows, every sane case table, every hex digest and every NON-EMPTY
name: whatever `safe_filename` returns is a single safe path component —
non-empty, not "." or "..", no "/", no C0 control unless `nocontrol`; in
Windows mode additionally none of `\|/:?"*<>`. -/
theorem safe_component (cfg : SafeCfg) (tbl : Nat → Str) (sha : Str → Str) (name r : Str)
    (hos : cfg.os ≠ .other) (ht : TableSane tbl) (hd : ShaSane sha) (hn : name ≠ [])
    (h : safeFilename cfg tbl sha name = .ok r) :
    SafeComponent cfg.noControl r ∧ (cfg.os = .windows → ∀ c ∈ r, c ∉ winChars) := by
  unfold safeFilename at h
  split at h
  · cases h
  · rename_i q hq
    cases h
    exact inv_safe cfg _ (foldStr_inv cfg tbl ht cfg.case _
      (truncate_inv cfg sha _ hd (winTrailing_inv cfg q (quoteName_inv cfg hos name _ hn hq))))

/-! ### which inputs raise -/

theorem hexChar_ne (n : Nat) : hexChar n ≠ 32 ∧ hexChar n ≠ 46 := by
  unfold hexChar; split <;> omega

theorem encChar_last (cfg : SafeCfg) (c : Nat) :
    ∃ init l, encChar cfg c = init ++ [l] ∧ (l = 32 ↔ c = 32) ∧ (l = 46 ↔ c = 46) := by
  unfold encChar
  split
  · split
    · rename_i he
      refine ⟨[37, hexChar (c / 16)], hexChar (c % 16), by simp [pct], ?_, ?_⟩
      · constructor
        · intro h; exact absurd h (hexChar_ne _).1
        · intro h; subst h; simp [escapes, winChars] at he
      · constructor
        · intro h; exact absurd h (hexChar_ne _).2
        · intro h; subst h; simp [escapes, winChars] at he
    · exact ⟨[], c, by simp, Iff.rfl, Iff.rfl⟩
  · rename_i hc
    split
    · rcases List.eq_nil_or_concat (utf8 c) with h | ⟨L, b, h⟩
      · exact absurd h (utf8_ne_nil c)
      · refine ⟨L.flatMap pct ++ [37, hexChar (b / 16)], hexChar (b % 16), ?_, ?_, ?_⟩
        · rw [h]; simp [pct, List.flatMap_append]
        · constructor
          · intro h; exact absurd h (hexChar_ne _).1
          · intro h; omega
        · constructor
          · intro h; exact absurd h (hexChar_ne _).2
          · intro h; omega
    · exact ⟨[], c, by simp, Iff.rfl, Iff.rfl⟩

theorem quote_last (cfg : SafeCfg) (name : Str) :
    (name.flatMap (encChar cfg) = [] ↔ name = []) ∧
    ((name.flatMap (encChar cfg)).getLast? = some 32 ↔ name.getLast? = some 32) ∧
    ((name.flatMap (encChar cfg)).getLast? = some 46 ↔ name.getLast? = some 46) := by
  rcases List.eq_nil_or_concat name with h | ⟨L, c, h⟩
  · subst h; simp
  · subst h
    obtain ⟨init, l, he, h32, h46⟩ := encChar_last cfg c
    have hq : (L.concat c).flatMap (encChar cfg) = (L.flatMap (encChar cfg) ++ init) ++ [l] := by
      simp [List.concat_eq_append, List.flatMap_append, he]
    rw [hq]
    simp only [List.getLast?_concat, List.concat_eq_append, Option.some.injEq]
    refine ⟨by simp, h32, h46⟩

/-- **error_branch** (DESIGN.md C15 T, section 7 row 17), for the repaired code.
Exactly which inputs make `safe_filename` raise, for every configuration: a lone
surrogate in a name other than "." / ".." → `UnicodeEncodeError`
(`filename.encode('utf8')`).  Nothing else raises: in particular Windows mode no
longer raises for names ending in a blank or a dot, nor for the empty name. -/
theorem error_branch (cfg : SafeCfg) (tbl : Nat → Str) (digest : Str → Str) (name : Str) (e : PyExc) :
    safeFilename cfg tbl digest name = .error e ↔
      name ≠ dot ∧ name ≠ dotdot ∧ name.any isSurrogate = true ∧ e = .UnicodeEncodeError := by
  unfold safeFilename quoteName
  by_cases hd : name = dot
  · simp [hd]
  by_cases hdd : name = dotdot
  · simp [hdd, dot, dotdot]
  by_cases hs : name.any isSurrogate = true
  · simp [hd, hdd, hs]
    exact eq_comm
  · simp [hd, hdd, hs]

/-- a name for which the code answers at all never raises in Windows mode because of
its last character: total on surrogate-free names -/
theorem safe_filename_total (cfg : SafeCfg) (tbl : Nat → Str) (sha : Str → Str) (name : Str)
    (hs : name.any isSurrogate = false) : ∃ r, safeFilename cfg tbl sha name = .ok r := by
  cases h : safeFilename cfg tbl sha name with
  | ok r => exact ⟨r, rfl⟩
  | error e =>
    have := (error_branch cfg tbl sha name e).mp h
    rw [hs] at this
    exact absurd this.2.2.1 (by simp)

/-! ### Windows mode: no trailing blank or dot -/

theorem winTrailing_last (cfg : SafeCfg) (hw : cfg.os = .windows) (q : Str) :
    (winTrailing cfg q).getLast? ≠ some 32 ∧ (winTrailing cfg q).getLast? ≠ some 46 := by
  unfold winTrailing
  simp only [hw, beq_self_eq_true, if_true]
  split
  · rename_i h; simp [h]
  · rename_i c hc
    split
    · have hlast : (q.dropLast ++ pct c).getLast? = some (hexChar (c % 16)) := by
        have : q.dropLast ++ pct c = (q.dropLast ++ [37, hexChar (c / 16)]) ++ [hexChar (c % 16)] := by
          simp [pct]
        rw [this, List.getLast?_concat]
      rw [hlast]
      have := hexChar_ne (c % 16)
      simp; omega
    · rename_i hcc
      rw [hc]
      simp at hcc ⊢
      omega

theorem truncate_last (cfg : SafeCfg) (sha : Str → Str) (hd : ShaSane sha) (w : Str)
    (hw : w.getLast? ≠ some 32 ∧ w.getLast? ≠ some 46) :
    (truncate cfg sha w).getLast? ≠ some 32 ∧ (truncate cfg sha w).getLast? ≠ some 46 := by
  unfold truncate
  split
  · obtain ⟨hlen, hhex⟩ := hd w
    generalize sha w = d at hlen hhex
    have hne : List.take 8 d ≠ [] := by
      intro h
      have h8 : (List.take 8 d).length = 8 := by simp; omega
      rw [h] at h8; simp at h8
    obtain ⟨init, l, hl⟩ : ∃ init l, List.take 8 d = init ++ [l] := by
      rcases List.eq_nil_or_concat (List.take 8 d) with h | ⟨L, b, h⟩
      · exact absurd h hne
      · exact ⟨L, b, by simpa [List.concat_eq_append] using h⟩
    have hlhex : isLowerHex l = true := hhex l (by rw [hl]; simp)
    have hlast : (List.take (cfg.maxLen - 8).toNat w ++ List.take 8 d).getLast? = some l := by
      rw [hl, ← List.append_assoc, List.getLast?_concat]
    rw [hlast]
    simp [isLowerHex, isAsciiDigit] at hlhex
    simp; omega
  · exact hw

theorem foldChar_last (tbl : Nat → Str) (ht : TableSane tbl) (m : CaseMode) (c : Nat) :
    ∃ init l, foldChar tbl m c = init ++ [l] ∧ ((l = 32 ∨ l = 46) → (c = 32 ∨ c = 46)) := by
  cases m with
  | none => exact ⟨[], c, by simp [foldChar], id⟩
  | lower =>
    simp only [foldChar]
    split
    · refine ⟨[], asciiLower c, by simp, ?_⟩
      unfold asciiLower isAsciiUpper
      split <;> simp_all <;> omega
    · rename_i h128
      obtain ⟨hne, hall⟩ := ht c (by omega)
      rcases List.eq_nil_or_concat (tbl c) with h | ⟨L, b, h⟩
      · exact absurd h hne
      · refine ⟨L, b, by simpa [List.concat_eq_append] using h, ?_⟩
        intro hb
        have := hall b (by rw [h]; simp [List.concat_eq_append])
        simp [isAsciiAlpha, isAsciiUpper, isAsciiLower] at this
        omega
  | upper =>
    simp only [foldChar]
    split
    · refine ⟨[], asciiUpper c, by simp, ?_⟩
      unfold asciiUpper isAsciiLower
      split <;> simp_all <;> omega
    · rename_i h128
      obtain ⟨hne, hall⟩ := ht c (by omega)
      rcases List.eq_nil_or_concat (tbl c) with h | ⟨L, b, h⟩
      · exact absurd h hne
      · refine ⟨L, b, by simpa [List.concat_eq_append] using h, ?_⟩
        intro hb
        have := hall b (by rw [h]; simp [List.concat_eq_append])
        simp [isAsciiAlpha, isAsciiUpper, isAsciiLower] at this
        omega

theorem foldStr_last (tbl : Nat → Str) (ht : TableSane tbl) (m : CaseMode) (s : Str)
    (hs : s.getLast? ≠ some 32 ∧ s.getLast? ≠ some 46) :
    (foldStr tbl m s).getLast? ≠ some 32 ∧ (foldStr tbl m s).getLast? ≠ some 46 := by
  rcases List.eq_nil_or_concat s with h | ⟨L, c, h⟩
  · subst h; simp [foldStr]
  · subst h
    obtain ⟨init, l, he, hl⟩ := foldChar_last tbl ht m c
    have hq : foldStr tbl m (L.concat c) = (L.flatMap (foldChar tbl m) ++ init) ++ [l] := by
      simp [foldStr, List.concat_eq_append, List.flatMap_append, he]
    rw [hq, List.getLast?_concat]
    simp only [List.concat_eq_append, List.getLast?_concat, ne_eq, Option.some.injEq] at hs ⊢
    constructor
    · intro h; rcases hl (Or.inl h) with h' | h'
      · exact hs.1 h'
      · exact hs.2 h'
    · intro h; rcases hl (Or.inr h) with h' | h'
      · exact hs.1 h'
      · exact hs.2 h'

/-- **windows_no_trailing_dot_or_blank**: in Windows mode, for every name, case table and
hash, a component `safe_filename` returns never ends in a blank or a dot (which Windows
would silently strip): the trailing character is percent-encoded, and neither the
truncation (ends in a hex digit) nor case folding brings one back. -/
theorem windows_no_trailing_dot_or_blank (cfg : SafeCfg) (tbl : Nat → Str) (sha : Str → Str) (name r : Str)
    (hw : cfg.os = .windows) (ht : TableSane tbl) (hd : ShaSane sha)
    (h : safeFilename cfg tbl sha name = .ok r) :
    r.getLast? ≠ some 32 ∧ r.getLast? ≠ some 46 := by
  unfold safeFilename at h
  split at h
  · cases h
  · rename_i q _
    cases h
    exact foldStr_last tbl ht cfg.case _ (truncate_last cfg sha hd _ (winTrailing_last cfg hw q))

/-! ### get_filename: helper lemmas -/

theorem spanP_append (p : Nat → Bool) (s : Str) : (spanP p s).1 ++ (spanP p s).2 = s := by
  induction s with
  | nil => rfl
  | cons c t ih =>
    unfold spanP
    split <;> simp [ih]

theorem cut1_notfound {s : Str} {sep : Nat} (h : (cut1 s sep).2.1 = false) :
    s = (cut1 s sep).1 ∧ (cut1 s sep).2.2 = [] := by
  unfold cut1 at h ⊢
  split at h
  · rename_i a heq
    have := spanP_append (· != sep) s
    rw [heq] at this
    simp at this
    exact ⟨this.symm, rfl⟩
  · simp at h

theorem hostnameOf_ne_nil {nl h : Str} (hh : hostnameOf nl = some h) : h ≠ [] := by
  unfold hostnameOf at hh
  simp only at hh
  split at hh
  · cases hh
  · rename_i hne
    simp only [Option.some.injEq] at hh
    intro hnil
    rw [hnil] at hh
    simp only [List.append_eq_nil_iff, List.map_eq_nil_iff] at hh
    obtain ⟨⟨h1, h2⟩, h3⟩ := hh
    have hf : (cut1 (hostinfo nl).1 37).2.1 = false := by
      cases hb : (cut1 (hostinfo nl).1 37).2.1
      · rfl
      · simp [hb] at h2
    have := (cut1_notfound hf).1
    rw [h1] at this
    simp [this] at hne

/-- every string entry of a part list is non-empty -/
def AllNonempty (ps : List (Option Str)) : Prop := ∀ p, some p ∈ ps → p ≠ []

theorem pctGo_ne_nil (s : Str) :
    pctGo .p s ≠ [] ∧ (∀ a, pctGo (.ph a) s ≠ []) ∧ (s ≠ [] → pctGo .n s ≠ []) := by
  induction s with
  | nil => simp [pctGo]
  | cons c t ih =>
    obtain ⟨ih1, ih2, _⟩ := ih
    refine ⟨?_, ?_, ?_⟩
    · unfold pctGo; split
      · exact ih2 c
      · simp
    · intro a; unfold pctGo; split <;> simp
    · intro _; unfold pctGo; split
      · exact ih1
      · simp

theorem decode_ne_nil (items : List Item) :
    (∀ p, decode (some p) items ≠ []) ∧ (items ≠ [] → decode none items ≠ []) := by
  induction items with
  | nil => simp [decode]
  | cons i t ih =>
    obtain ⟨ih1, _⟩ := ih
    cases i with
    | char c => simp [decode]
    | byte b =>
      refine ⟨?_, ?_⟩
      · intro p
        unfold decode
        split
        · split
          · simp
          · exact ih1 _
        · simp
      · intro _
        unfold decode
        split
        · simp
        · exact ih1 _

/-- `urllib.parse.unquote` never returns the empty string for a non-empty one -/
theorem unquote_ne_nil {s : Str} (h : s ≠ []) : unquote s ≠ [] := by
  unfold unquote
  split
  · exact (decode_ne_nil _).2 ((pctGo_ne_nil s).2.2 h)
  · exact h

theorem unquoteAll_nonempty : ∀ (ps qs : List (Option Str)), unquoteAll ps = .ok qs →
    AllNonempty ps → AllNonempty qs := by
  intro ps
  induction ps with
  | nil => intro qs h _; simp [unquoteAll] at h; subst h; intro p hp; simp at hp
  | cons o rest ih =>
    intro qs h hne
    cases o with
    | none => simp [unquoteAll] at h
    | some p =>
      unfold unquoteAll at h
      split at h
      · cases h
      · rename_i rs hrs
        cases h
        intro q hq
        simp only [List.mem_cons, Option.some.injEq] at hq
        rcases hq with rfl | hq
        · exact unquote_ne_nil (hne p (by simp))
        · exact ih rs hrs (fun x hx => hne x (by simp [hx])) q hq

theorem urlsplitRest_scheme {ext : Ext} {sc u : Str} {sp : Split}
    (h : urlsplitRest ext sc u = .ok sp) : sp.scheme = sc := by
  unfold urlsplitRest at h
  split at h
  · cases h
  · cases h; rfl

theorem unquoteAll_length : ∀ (ps qs : List (Option Str)), unquoteAll ps = .ok qs → qs.length = ps.length := by
  intro ps
  induction ps with
  | nil => intro qs h; simp [unquoteAll] at h; subst h; rfl
  | cons o rest ih =>
    intro qs h
    cases o with
    | none => simp [unquoteAll] at h
    | some p =>
      unfold unquoteAll at h
      split at h
      · cases h
      · rename_i rs hrs
        cases h
        simp [ih rs hrs]

theorem urlToDirParts_nonempty {ext : Ext} {url : Str} {proto host alt : Bool} {ps : List (Option Str)}
    (h : urlToDirParts ext url proto host alt = .ok ps)
    (hs : proto = true → ∀ sp, urlsplit ext url = .ok sp → sp.scheme ≠ []) : AllNonempty ps := by
  unfold urlToDirParts at h
  split at h
  · cases h
  · rename_i sp hsp
    simp only at h
    split at h
    · cases h
    · rename_i p2 hp2
      have hparts : AllNonempty ((if proto = true then [some sp.scheme] else []) ++ p2 ++
          List.map some (List.filter (fun x => !x.isEmpty) (splitOn1 sp.path 47))) := by
        intro p hp
        simp only [List.mem_append, List.mem_map, List.mem_filter] at hp
        rcases hp with (hp | hp) | hp
        · split at hp
          · rename_i hproto
            simp at hp; subst hp
            exact hs hproto sp hsp
          · simp at hp
        · split at hp2
          · split at hp2
            · cases hp2
            · cases hp2
              simp at hp; subst hp
              simp
            · cases hp2
              simp at hp
              exact hostnameOf_ne_nil hp.symm
          · cases hp2; simp at hp
        · obtain ⟨a, ⟨_, ha⟩, hap⟩ := hp
          cases hap
          simpa using ha
      cases h
      generalize ((if proto = true then [some sp.scheme] else []) ++ p2 ++
          List.map some (List.filter (fun x => !x.isEmpty) (splitOn1 sp.path 47))) = P at hparts ⊢
      split
      · intro p hp
        exact hparts p ((List.dropLast_sublist _).subset hp)
      · exact hparts

theorem urlToFilename_ne_nil {ext : Ext} {url index f : Str} {alt : Bool}
    (h : urlToFilename ext url index alt = .ok f) (hi : index ≠ []) : f ≠ [] := by
  unfold urlToFilename at h
  split at h
  · cases h
  · cases h
    split
    · split
      · exact hi
      · rename_i hne; simpa using hne
    · simp

theorem listingName_ne_nil : listingName ≠ [] := by decide

theorem rawParts_nonempty {cfg : NamerCfg} {ext : Ext} {isFtp : Bool} {url : Str} {ps : List (Option Str)}
    (h : rawParts cfg ext isFtp url = .ok ps) (hi : cfg.index ≠ [])
    (hs : cfg.protocol = true → ∀ sp, urlsplit ext url = .ok sp → sp.scheme ≠ []) :
    AllNonempty ps ∧ ps ≠ [] := by
  unfold rawParts at h
  simp only at h
  split at h
  · cases h
  · rename_i dirs hdirs
    have hd : AllNonempty dirs := by
      split at hdirs
      · split at hdirs
        · cases hdirs
        · rename_i d hd
          cases hdirs
          intro p hp
          exact urlToDirParts_nonempty hd hs p (List.mem_of_mem_drop hp)
      · cases hdirs; intro p hp; simp at hp
    split at h
    · cases h
    · rename_i f hf
      have hfne : f ≠ [] := by
        cases isFtp
        · exact urlToFilename_ne_nil (by simpa using hf) hi
        · exact urlToFilename_ne_nil (by simpa using hf) listingName_ne_nil
      have hall : AllNonempty (dirs ++ [some f]) := by
        intro p hp
        simp only [List.mem_append, List.mem_singleton, Option.some.injEq] at hp
        rcases hp with hp | rfl
        · exact hd p hp
        · exact hfne
      split at h
      · refine ⟨unquoteAll_nonempty _ _ h hall, ?_⟩
        intro hnil
        have := unquoteAll_length _ _ h
        rw [hnil] at this
        simp at this
      · cases h
        exact ⟨hall, by simp⟩

theorem safeAll_safe {cfg : SafeCfg} {tbl : Nat → Str} {sha : Str → Str}
    (hos : cfg.os ≠ .other) (ht : TableSane tbl) (hd : ShaSane sha) :
    ∀ (ps : List (Option Str)) (rs : List Str), safeAll cfg tbl sha ps = .ok rs → AllNonempty ps →
      rs.length = ps.length ∧
      ∀ r ∈ rs, SafeComponent cfg.noControl r ∧ (cfg.os = .windows → ∀ c ∈ r, c ∉ winChars) := by
  intro ps
  induction ps with
  | nil => intro rs h _; simp [safeAll] at h; subst h; simp
  | cons o rest ih =>
    intro rs h hne
    cases o with
    | none => simp [safeAll] at h
    | some p =>
      unfold safeAll at h
      split at h
      · cases h
      · rename_i r hr
        split at h
        · cases h
        · rename_i rs' hrs
          cases h
          obtain ⟨hl, hall⟩ := ih rs' hrs (fun x hx => hne x (by simp [hx]))
          refine ⟨by simp [hl], ?_⟩
          intro x hx
          simp only [List.mem_cons] at hx
          rcases hx with rfl | hx
          · exact safe_component cfg tbl sha p _ hos ht hd (hne p (by simp)) hr
          · exact hall x hx

/-! ### posixpath.join over safe components -/

/-- the directory prefix as `os.path.join` continues it: `root`, plus a "/" unless
`root` is empty or already ends with one -/
def rootPrefix (root : Str) : Str :=
  if root.isEmpty || root.getLast? == some 47 then root else root ++ [47]

theorem head_ne_of_not_mem {b : Str} (h : 47 ∉ b) : b.head? ≠ some 47 := by
  cases b with
  | nil => simp
  | cons c t => simp at h ⊢; omega

theorem joinOne_clean (path b : Str) (hb : 47 ∉ b) : joinOne path b = rootPrefix path ++ b := by
  have := head_ne_of_not_mem hb
  unfold joinOne rootPrefix
  split
  · rename_i h; simp at h; exact absurd h this
  · split <;> simp

theorem getLast_ne_of_not_mem {d : Str} (h : 47 ∉ d) : d.getLast? ≠ some 47 := by
  intro hl
  obtain ⟨ys, hy⟩ := List.getLast?_eq_some_iff.mp hl
  rw [hy] at h; simp at h

theorem foldl_joinOne (cs : List Str) (hcs : ∀ d ∈ cs, d ≠ [] ∧ 47 ∉ d) :
    ∀ acc : Str, acc ≠ [] → acc.getLast? ≠ some 47 →
      cs.foldl joinOne acc = acc ++ cs.flatMap (fun d => 47 :: d) := by
  induction cs with
  | nil => intro acc _ _; simp
  | cons d rest ih =>
    intro acc hne hl
    obtain ⟨hd0, hd47⟩ := hcs d (by simp)
    have hstep : joinOne acc d = acc ++ [47] ++ d := by
      rw [joinOne_clean acc d hd47]
      unfold rootPrefix
      split
      · rename_i h
        simp at h
        rcases h with h | h
        · exact absurd h hne
        · exact absurd h hl
      · rfl
    simp only [List.foldl_cons, hstep, List.flatMap_cons]
    rw [ih (fun x hx => hcs x (by simp [hx]))]
    · simp
    · simp
    · rw [List.getLast?_append]
      cases hdl : d.getLast? with
      | none => exact absurd (List.getLast?_eq_none_iff.mp hdl) hd0
      | some x =>
        simp
        intro hx; subst hx
        exact getLast_ne_of_not_mem hd47 hdl

theorem joinWith_cons (c : Str) (cs : List Str) :
    joinWith [47] (c :: cs) = c ++ cs.flatMap (fun d => 47 :: d) := by
  induction cs generalizing c with
  | nil => simp [joinWith]
  | cons d rest ih => simp [joinWith, ih d]

/-- `os.path.join(root, *comps)` for components without "/": the prefix, then the
components separated by single slashes -/
theorem posixJoin_safe (root : Str) (c : Str) (cs : List Str)
    (hcs : ∀ d ∈ c :: cs, d ≠ [] ∧ 47 ∉ d) :
    posixJoin root (c :: cs) = rootPrefix root ++ joinWith [47] (c :: cs) := by
  obtain ⟨hc0, hc47⟩ := hcs c (by simp)
  unfold posixJoin
  simp only [List.foldl_cons]
  rw [joinOne_clean root c hc47, joinWith_cons]
  rw [foldl_joinOne cs (fun x hx => hcs x (by simp [hx]))]
  · simp
  · simp [hc0]
  · rw [List.getLast?_append]
    cases hdl : c.getLast? with
    | none => exact absurd (List.getLast?_eq_none_iff.mp hdl) hc0
    | some x =>
      simp
      intro hx; subst hx
      exact getLast_ne_of_not_mem hc47 hdl

theorem go_append (a : Str) (h : 47 ∉ a) : ∀ (rest acc : Str),
    splitOn1.go 47 (a ++ rest) acc = splitOn1.go 47 rest (a.reverse ++ acc) := by
  induction a with
  | nil => intro rest acc; simp
  | cons c t ih =>
    intro rest acc
    simp at h
    have hc : (c == 47) = false := by simp; omega
    simp [splitOn1.go, hc]
    exact ih h.2 rest (c :: acc)

/-- splitting the joined components at "/" gives the components back: they are
exactly the path components below the prefix -/
theorem splitOn1_joinWith (c : Str) (cs : List Str) (hcs : ∀ d ∈ c :: cs, 47 ∉ d) :
    splitOn1 (joinWith [47] (c :: cs)) 47 = c :: cs := by
  induction cs generalizing c with
  | nil =>
    have := go_append c (hcs c (by simp)) [] []
    simp [joinWith, splitOn1, splitOn1.go] at this ⊢
    exact this
  | cons d rest ih =>
    have h1 := go_append c (hcs c (by simp)) ([47] ++ joinWith [47] (d :: rest)) []
    have h2 := ih d (fun x hx => hcs x (by simp at hx ⊢; right; exact hx))
    simp only [joinWith, splitOn1] at h1 h2 ⊢
    rw [List.append_assoc, h1]
    simp [splitOn1.go, h2]

/-! ### the scheme of a canonical URL -/

/-- the url handed to `get_filename` begins with `<scheme>://` (`URLInfo.url` of a
network scheme: http, https, ftp, …) -/
def HasScheme (url : Str) : Prop :=
  ∃ c t rest, url = (c :: t) ++ lit "://" ++ rest ∧ isAsciiAlpha c = true ∧ (c :: t).all isSchemeChar = true

theorem spanP_stop (p : Nat → Bool) (s : Str) (y : Nat) (R : Str) (hs : ∀ x ∈ s, p x = true) (hy : p y = false) :
    spanP p (s ++ y :: R) = (s, y :: R) := by
  induction s with
  | nil => simp [spanP, hy]
  | cons c t ih =>
    have := ih (fun x hx => hs x (by simp [hx]))
    simp [spanP, hs c (by simp), this]

theorem schemeChar_facts {x : Nat} (h : isSchemeChar x = true) : 32 < x ∧ x ≠ 58 ∧ x ≠ 9 ∧ x ≠ 10 ∧ x ≠ 13 := by
  simp [isSchemeChar, isAsciiAlpha, isAsciiUpper, isAsciiLower, isAsciiDigit] at h
  omega

theorem splitScheme_of_hasScheme {url : Str} (hu : HasScheme url) : (splitScheme (cleanUrl url)).1 ≠ [] := by
  obtain ⟨c, t, rest, rfl, hc, hall⟩ := hu
  have hall' : ∀ x ∈ c :: t, isSchemeChar x = true := by simpa using hall
  have hclean : cleanUrl ((c :: t) ++ lit "://" ++ rest) =
      (c :: t) ++ 58 :: List.filter (fun c => c != 9 && c != 10 && c != 13) (47 :: 47 :: rest) := by
    have hc32 : ¬ (c ≤ 32) := by have := (schemeChar_facts (hall' c (by simp))).1; omega
    unfold cleanUrl
    rw [show (c :: t) ++ lit "://" ++ rest = c :: (t ++ lit "://" ++ rest) by simp]
    rw [List.dropWhile_cons_of_neg (by simpa using hc32)]
    rw [show c :: (t ++ lit "://" ++ rest) = (c :: t) ++ (58 :: 47 :: 47 :: rest) by simp [lit]]
    rw [List.filter_append]
    congr 1
    · apply List.filter_eq_self.mpr
      intro x hx
      have := schemeChar_facts (hall' x hx)
      simp; omega
  rw [hclean]
  have hspan := spanP_stop (· != 58) (c :: t) 58
    (List.filter (fun c => c != 9 && c != 10 && c != 13) (47 :: 47 :: rest))
    (fun x hx => by have := schemeChar_facts (hall' x hx); simp; omega) (by simp)
  unfold splitScheme cut1
  rw [hspan]
  simp [hc, hall]

theorem urlsplit_scheme_ne_nil {ext : Ext} {url : Str} {sp : Split} (hu : HasScheme url)
    (h : urlsplit ext url = .ok sp) : sp.scheme ≠ [] := by
  unfold urlsplit at h
  rw [urlsplitRest_scheme h]
  exact splitScheme_of_hasScheme hu

/-! ## property theorems (continued) -/

/-- **get_filename_contained** (DESIGN.md C15, T).  For every namer configuration
(root, non-empty index name, use_dir, cut, protocol / host directories, os_type unix
or windows, control / ASCII restriction, case, length limit), every url that starts
with `<scheme>://` — http and ftp alike, `isFtp` arbitrary —, every verdict of the
library checks, every sane case table and hash: if `get_filename` returns a path `p`
at all, then `p` is the directory prefix followed by one or more components
separated by single slashes, splitting the part below the prefix at "/" gives back
exactly these components, and every one of them is a safe component (non-empty,
not "." or "..", no "/", no C0 control unless nocontrol, no Windows-reserved
character in Windows mode). -/
theorem get_filename_contained (cfg : NamerCfg) (tbl : Nat → Str) (sha : Str → Str) (ext : Ext)
    (isFtp : Bool) (url p : Str)
    (hos : cfg.safe.os ≠ .other) (ht : TableSane tbl) (hd : ShaSane sha)
    (hi : cfg.index ≠ []) (hu : HasScheme url)
    (h : getFilename cfg tbl sha ext isFtp url = .ok p) :
    ∃ comps : List Str, comps ≠ [] ∧
      p = rootPrefix cfg.root ++ joinWith [47] comps ∧
      splitOn1 (joinWith [47] comps) 47 = comps ∧
      ∀ r ∈ comps, SafeComponent cfg.safe.noControl r ∧
        (cfg.safe.os = .windows → ∀ c ∈ r, c ∉ winChars) := by
  unfold getFilename at h
  split at h
  · cases h
  · rename_i comps hcomps
    cases h
    unfold components at hcomps
    split at hcomps
    · cases hcomps
    · rename_i parts hparts
      obtain ⟨hne, hnil⟩ := rawParts_nonempty hparts hi (fun _ sp hsp => urlsplit_scheme_ne_nil hu hsp)
      obtain ⟨hlen, hsafe⟩ := safeAll_safe hos ht hd parts comps hcomps hne
      have hcne : comps ≠ [] := by
        intro hc; rw [hc] at hlen; simp at hlen
        exact hnil (List.eq_nil_of_length_eq_zero hlen.symm)
      cases comps with
      | nil => exact absurd rfl hcne
      | cons c cs =>
        have h47 : ∀ d ∈ c :: cs, d ≠ [] ∧ 47 ∉ d := fun d hd' =>
          ⟨(hsafe d hd').1.1, (hsafe d hd').1.2.2.2.1⟩
        exact ⟨c :: cs, hcne, posixJoin_safe cfg.root c cs h47,
          splitOn1_joinWith c cs (fun d hd' => (h47 d hd').2), hsafe⟩

/-- **content_disposition_contained** (DESIGN.md C15, T).  For every value of the
two regular-expression matches (hence every Content-Disposition header), every
current file name, configuration, case table and hash: the rename either leaves
the file name alone, or puts ONE safe component into the directory of the current
file name (`posixpath.dirname`, continued by a single "/"). -/
theorem content_disposition_contained (cfg : SafeCfg) (tbl : Nat → Str) (sha : Str → Str)
    (cur : Str) (isHttp hasHeader : Bool) (m1 m2 : Option Str) (p : Str)
    (hos : cfg.os ≠ .other) (ht : TableSane tbl) (hd : ShaSane sha)
    (h : renameCD cfg tbl sha cur isHttp hasHeader m1 m2 = .ok p) :
    p = cur ∨ ∃ comp, p = rootPrefix (dirname cur) ++ comp ∧
      SafeComponent cfg.noControl comp ∧ (cfg.os = .windows → ∀ c ∈ comp, c ∉ winChars) := by
  unfold renameCD at h
  split at h
  · cases h; exact Or.inl rfl
  · split at h
    · cases h; exact Or.inl rfl
    · rename_i f hf
      split at h
      · cases h; exact Or.inl rfl
      · rename_i hfe
        split at h
        · cases h
        · rename_i n hn
          cases h
          have hsafe := safe_component cfg tbl sha f n hos ht hd (by simpa using hfe) hn
          exact Or.inr ⟨n, joinOne_clean _ n hsafe.1.2.2.2.1, hsafe⟩

theorem dropWhile_nil_all (p : Nat → Bool) : ∀ l : Str, l.dropWhile p = [] → ∀ x ∈ l, p x = true := by
  intro l
  induction l with
  | nil => intro _ x hx; simp at hx
  | cons c t ih =>
    intro h x hx
    by_cases hc : p c = true
    · rw [List.dropWhile_cons_of_pos hc] at h
      simp only [List.mem_cons] at hx
      rcases hx with rfl | hx
      · exact hc
      · exact ih h x hx
    · rw [List.dropWhile_cons_of_neg hc] at h
      cases h

theorem go_last (name : Str) (h : 47 ∉ name) : ∀ (y acc : Str),
    (splitOn1.go 47 (y ++ 47 :: name) acc).getLast? = some name := by
  have hname : splitOn1.go 47 name [] = [name] := by
    have := go_append name h [] []
    simpa [splitOn1.go] using this
  intro y
  induction y with
  | nil => intro acc; simp [splitOn1.go, hname]
  | cons c t ih =>
    intro acc
    by_cases hc : c = 47
    · subst hc
      have := ih []
      simp only [List.cons_append, splitOn1.go, beq_self_eq_true, if_true]
      cases hg : splitOn1.go 47 (t ++ 47 :: name) [] with
      | nil => rw [hg] at this; simp at this
      | cons b l => rw [hg] at this; rw [List.getLast?_cons_cons]; exact this
    · have hc' : (c == 47) = false := by simpa using hc
      simp only [List.cons_append, splitOn1.go, hc']
      exact ih (c :: acc)

/-- `posixpath.dirname` of "directory part + one name": the directory part with its
trailing slashes removed (kept when it consists of slashes only) -/
theorem dirname_contained (pre name : Str) (hpre : pre = [] ∨ pre.getLast? = some 47) (h : 47 ∉ name) :
    dirname (pre ++ name) = if pre.all (· == 47) then pre else rstripSlash pre := by
  have hlast : (splitOn1 (pre ++ name) 47).getLast? = some name := by
    rcases hpre with rfl | hp
    · have := go_append name h [] []
      simp [splitOn1, splitOn1.go] at this ⊢
      simp [this]
    · obtain ⟨y, rfl⟩ := List.getLast?_eq_some_iff.mp hp
      have := go_last name h y []
      simpa [splitOn1] using this
  unfold dirname
  simp [hlast]

/-- **content_disposition_same_directory**: if the current file name is "directory part
+ one name" (as `get_filename_contained` guarantees), the renamed file lies in that
same directory part (its trailing slashes collapsed to one) and is one safe component. -/
theorem content_disposition_same_directory (cfg : SafeCfg) (tbl : Nat → Str) (sha : Str → Str)
    (pre name : Str) (isHttp hasHeader : Bool) (m1 m2 : Option Str) (p : Str)
    (hos : cfg.os ≠ .other) (ht : TableSane tbl) (hd : ShaSane sha)
    (hpre : pre = [] ∨ pre.getLast? = some 47) (hname : 47 ∉ name)
    (h : renameCD cfg tbl sha (pre ++ name) isHttp hasHeader m1 m2 = .ok p) :
    p = pre ++ name ∨ ∃ comp,
      p = (if pre.all (· == 47) then pre else rstripSlash pre ++ [47]) ++ comp ∧
      SafeComponent cfg.noControl comp ∧ (cfg.os = .windows → ∀ c ∈ comp, c ∉ winChars) := by
  rcases content_disposition_contained cfg tbl sha _ isHttp hasHeader m1 m2 p hos ht hd h with h | ⟨comp, hp, hs⟩
  · exact Or.inl h
  · refine Or.inr ⟨comp, ?_, hs⟩
    rw [hp, dirname_contained pre name hpre hname]
    split
    · rename_i hall
      -- a directory part made of slashes only (or empty) is continued as it is
      unfold rootPrefix
      split
      · rfl
      · rename_i hne
        simp at hne
        obtain ⟨h1, h2⟩ := hne
        rcases hpre with rfl | hp
        · exact absurd rfl h1
        · exact absurd hp h2
    · rename_i hall
      unfold rootPrefix rstripSlash
      have hdw : pre.reverse.dropWhile (· == 47) ≠ [] := by
        intro hnil
        have hnil := dropWhile_nil_all _ _ hnil
        apply hall
        simp only [List.all_eq_true]
        intro x hx
        exact hnil x (by simpa using hx)
      have hhead := List.head?_dropWhile_not (· == 47) pre.reverse
      cases hdl : pre.reverse.dropWhile (· == 47) with
      | nil => exact absurd hdl hdw
      | cons b l =>
        rw [hdl] at hhead
        simp at hhead
        simp [hhead]

/-- The writer's anti-clobber suffixes (".f", ".d", ".1", ".html", …): appending a
non-empty suffix of printable non-slash characters that does not end in a dot to a
safe component gives a safe component. -/
theorem safe_component_suffix (nc : Bool) (r suffix : Str) (hr : SafeComponent nc r)
    (hs : ∀ c ∈ suffix, c ≠ 47 ∧ 32 ≤ c) (hlast : ∃ init l, suffix = init ++ [l] ∧ l ≠ 46) :
    SafeComponent nc (r ++ suffix) := by
  obtain ⟨h0, h1, h2, h47, hctl⟩ := hr
  obtain ⟨init, l, rfl, hl⟩ := hlast
  refine ⟨by simp, ?_, ?_, ?_, ?_⟩
  · intro h
    have := congrArg List.getLast? h
    rw [← List.append_assoc, List.getLast?_concat] at this
    simp [dot] at this; exact hl this
  · intro h
    have := congrArg List.getLast? h
    rw [← List.append_assoc, List.getLast?_concat] at this
    simp [dotdot] at this; exact hl this
  · intro h
    rcases List.mem_append.mp h with h | h
    · exact h47 h
    · exact (hs 47 h).1 rfl
  · intro hnc c hc
    rcases List.mem_append.mp hc with h | h
    · exact hctl hnc c h
    · exact (hs c h).2

/-- The boundary of the `os_type` assumption: for any other string than "unix" /
"windows" the separator is NOT escaped (the application never builds such a namer). -/
theorem other_os_not_contained :
    safeFilename ⟨.other, true, true, .none, 0⟩ (fun c => [c]) (fun _ => []) (lit "../x")
      = .ok (lit "../x") := by decide

/-- **options_os_known**: whatever `--restrict-file-names` list the user gives (any subset,
any order, repeated, empty, or the default), the namer the setup task builds has
`os_type` "unix" or "windows" — never an absent / other value that would switch the
escaping of "/" off. -/
theorem options_os_known (modes : List Mode) (maxLen : Int) : (optionsToCfg modes maxLen).os ≠ .other := by
  unfold optionsToCfg
  simp only
  split <;> simp

/-- **argv_get_filename_contained**: `get_filename_contained` for the namer built from the
command line: for EVERY option list (restrict modes, length limit, prefix, non-empty
default page, directory options, cut, protocol / host directories) no assumption on
`os_type` is left. -/
theorem argv_get_filename_contained (modes : List Mode) (maxLen : Int) (root index : Str) (nUrls : Nat)
    (pr rc : Bool) (d : DirOpt) (cut : Nat) (protocol hostname : Bool)
    (tbl : Nat → Str) (sha : Str → Str) (ext : Ext) (isFtp : Bool) (url p : Str)
    (ht : TableSane tbl) (hd : ShaSane sha) (hi : index ≠ []) (hu : HasScheme url)
    (h : getFilename (namerOfArgs modes maxLen root index nUrls pr rc d cut protocol hostname)
          tbl sha ext isFtp url = .ok p) :
    ∃ comps : List Str, comps ≠ [] ∧
      p = rootPrefix root ++ joinWith [47] comps ∧
      splitOn1 (joinWith [47] comps) 47 = comps ∧
      ∀ r ∈ comps, SafeComponent (!modes.contains .nocontrol) r ∧
        (modes.contains .windows = true → ∀ c ∈ r, c ∉ winChars) := by
  have := get_filename_contained _ tbl sha ext isFtp url p (options_os_known modes maxLen) ht hd hi hu h
  obtain ⟨comps, h1, h2, h3, h4⟩ := this
  refine ⟨comps, h1, h2, h3, ?_⟩
  intro r hr
  obtain ⟨hs, hw⟩ := h4 r hr
  refine ⟨hs, ?_⟩
  intro hwin
  apply hw
  have hmem : Mode.windows ∈ modes := by simpa using hwin
  simp [namerOfArgs, optionsToCfg, hmem]

/-- the same for the Content-Disposition rename of a writer built from the command line -/
theorem argv_content_disposition_contained (modes : List Mode) (maxLen : Int)
    (tbl : Nat → Str) (sha : Str → Str) (cur : Str) (isHttp hasHeader : Bool) (m1 m2 : Option Str) (p : Str)
    (ht : TableSane tbl) (hd : ShaSane sha)
    (h : renameCD (optionsToCfg modes maxLen) tbl sha cur isHttp hasHeader m1 m2 = .ok p) :
    p = cur ∨ ∃ comp, p = rootPrefix (dirname cur) ++ comp ∧
      SafeComponent (!modes.contains .nocontrol) comp :=
  match content_disposition_contained _ tbl sha cur isHttp hasHeader m1 m2 p
      (options_os_known modes maxLen) ht hd h with
  | .inl h => .inl h
  | .inr ⟨comp, h1, h2, _⟩ => .inr ⟨comp, h1, h2⟩

/-! ## non-vacuity -/

example : (optionsToCfg [.ascii, .lower] 160).os = .unix := by decide
example : (optionsToCfg [.nocontrol, .windows, .upper] 0) = ⟨.windows, false, false, .upper, 0⟩ := rfl
example : (optionsToCfg [] 160) = ⟨.unix, true, false, .none, 160⟩ := rfl

example : safeFilename ⟨.unix, true, true, .none, 0⟩ (fun c => [c]) (fun _ => []) (lit "..") = .ok (lit "%2E%2E") := by decide
example : safeFilename ⟨.unix, true, true, .lower, 0⟩ (fun c => [c]) (fun _ => []) [97, 0, 233] = .ok (lit "a%00%c3%a9") := by decide
example : safeFilename ⟨.unix, true, true, .none, 9⟩ (fun c => [c]) (fun _ => lit "0123456789abcdef") (lit "/////") = .ok (lit "%01234567") := by decide
example : safeFilename ⟨.windows, true, false, .none, 0⟩ (fun c => [c]) (fun _ => []) (lit "a.") = .ok (lit "a%2E") := by decide
example : safeFilename ⟨.windows, true, false, .upper, 0⟩ (fun c => [c]) (fun _ => []) (lit "x. ") = .ok (lit "X.%20") := by decide
example : safeFilename ⟨.windows, true, false, .none, 0⟩ (fun c => [c]) (fun _ => []) [] = .ok [] := by decide
example : safeFilename ⟨.unix, true, false, .none, 0⟩ (fun c => [c]) (fun _ => []) [0xD800] = .error .UnicodeEncodeError := by decide
example : unquote (lit "%2E%2E%2Fa%FF") = [46, 46, 47, 97, 0xFFFD] := by decide
example : getFilename ⟨⟨.unix, true, true, .none, 0⟩, lit "dl", lit "index.html", true, 0, false, true⟩
    (fun c => [c]) (fun _ => []) ⟨true, true⟩ true (lit "ftp://h/a%2Fb/%2E%2E/")
    = .ok (lit "dl/h/a%2Fb/%2E%2E/.listing") := by decide
example : getFilename ⟨⟨.unix, true, true, .none, 0⟩, lit "dl", lit "index.html", true, 0, false, true⟩
    (fun c => [c]) (fun _ => []) ⟨true, true⟩ false (lit "http://h:81/x/y?q=/")
    = .ok (lit "dl/h:81/x/y/y?q=%2F") := by decide
example : dirname (lit "dl//h/a.txt") = lit "dl//h" := by decide
-- the user-info bracket case (repaired in wpull/url.py, `fixed:` C15 858ec21): the normal form of
-- `http://[u@h/` is now `http://%5Bu@h/`, for which a contained path is chosen
example : getFilename ⟨⟨.unix, true, true, .none, 0⟩, lit "dl", lit "index.html", true, 0, false, true⟩
    (fun c => [c]) (fun _ => []) ⟨true, true⟩ false (lit "http://%5Bu@h/") = .ok (lit "dl/h/index.html") := by decide
example : HasScheme (lit "ftp://h/a") := ⟨102, lit "tp", lit "h/a", by decide, by decide, by decide⟩
example : renameCD ⟨.unix, true, true, .none, 0⟩ (fun c => [c]) (fun _ => []) (lit "dl/h/a.txt") true true
    (some (lit "\"../../etc/passwd\"")) (some (lit "../../etc/passwd")) = .ok (lit "dl/h/..%2F..%2Fetc%2Fpasswd") := by decide

end Wpull.Path
