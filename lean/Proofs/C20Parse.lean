/-
C20 — the robots.txt tokenizer (`Wpull/RobotsParse.lean`, model of
`RobotExclusionRulesParser.parse`).  What the gate relies on before the matcher runs:

* a line ends at CR LF, CR or LF and nowhere else (`line_ends_only_at_cr_lf`): VT, FF, FS..US, NEL
  and every other character stay inside their line;
* the three spellings of a line end give the same lines, hence the same rule sets
  (`splitLines_join`, `line_end_spelling_irrelevant`);
* what follows the first `#` of a line plays no part (`comment_text_irrelevant`), a line holding
  only a comment is no record boundary (`comment_only_line_is_no_boundary`), and so the rule sets
  of a file are those of the file with the text of every comment taken out
  (`comments_carry_nothing`, `comments_carry_nothing_text`).

Tied to the real parser by the `parse` stream of harness/engines/c20.py.
-/
import Wpull.RobotsParse
namespace Wpull.Robots
open Wpull

theorem dropWhile_append_stop (p : Nat → Bool) (l r : List Nat) (x : Nat) (hx : p x = false) :
    (l ++ x :: r).dropWhile p = l.dropWhile p ++ x :: r := by
  induction l with
  | nil => simp [List.dropWhile, hx]
  | cons a l ih =>
    simp only [List.cons_append, List.dropWhile_cons]
    split
    · exact ih
    · rfl

theorem rstrip_append_stop (a c : Str) (x : Nat) (hx : isPySpace x = false) :
    rstrip (a ++ x :: c) = a ++ x :: rstrip c := by
  unfold rstrip
  rw [List.reverse_append, List.reverse_cons, List.append_assoc]
  simp only [List.singleton_append]
  rw [dropWhile_append_stop _ _ _ _ hx]
  simp

theorem strip_comment_line (pre c : Str) :
    strip (pre ++ 35 :: c) = lstrip pre ++ 35 :: rstrip c := by
  unfold strip lstrip
  rw [dropWhile_append_stop _ _ _ _ (by decide)]
  exact rstrip_append_stop _ _ _ (by decide)

theorem beforeHash_append (a b : Str) (h : 35 ∉ a) : beforeHash (a ++ 35 :: b) = a := by
  unfold beforeHash
  induction a with
  | nil => simp
  | cons x a ih =>
    have hx : x ≠ 35 := fun e => h (by simp [e])
    have : 35 ∉ a := fun m => h (List.mem_cons_of_mem _ m)
    simp [hx, ih this]

/-- Whatever follows the first `#` of a line plays no part. -/
theorem comment_text_irrelevant (st : PState) (pre c c' : Str) (h : 35 ∉ pre) :
    stepLine st (pre ++ 35 :: c) = stepLine st (pre ++ 35 :: c') := by
  unfold stepLine
  simp only [strip_comment_line]
  cases hp : lstrip pre with
  | nil => simp
  | cons y ys =>
    have hy : y ≠ 35 := by
      intro e
      have : y ∈ pre := by
        have : y ∈ lstrip pre := by rw [hp]; simp
        exact (List.dropWhile_sublist _).subset this
      exact h (e ▸ this)
    have h35 : 35 ∉ y :: ys := by
      intro m
      have : 35 ∈ lstrip pre := by rw [hp]; exact m
      exact h ((List.dropWhile_sublist _).subset this)
    have e1 : ∀ d, beforeHash (y :: ys ++ 35 :: d) = y :: ys := fun d => beforeHash_append _ _ h35
    simp only [List.cons_append] at e1
    simp [hy, e1]

def Clean (l : Str) : Prop := 10 ∉ l ∧ 13 ∉ l

theorem splitLines_ne_nil (s : Str) : splitLines s ≠ [] := by
  fun_induction splitLines s <;> simp_all

theorem splitLines_clean_self (s : Str) (h : Clean s) : splitLines s = [s] := by
  induction s with
  | nil => simp [splitLines]
  | cons c rest ih =>
    have hc : c ≠ 10 ∧ c ≠ 13 := ⟨fun e => h.1 (by simp [e]), fun e => h.2 (by simp [e])⟩
    have hr : Clean rest := ⟨fun m => h.1 (List.mem_cons_of_mem _ m), fun m => h.2 (List.mem_cons_of_mem _ m)⟩
    rw [splitLines.eq_def]
    split
    · simp_all
    · simp_all
    · rename_i c' rest' _
      simp only [List.cons.injEq] at *
      simp_all
    all_goals simp_all

theorem splitLines_lines_clean (s : Str) : ∀ l ∈ splitLines s, Clean l := by
  fun_induction splitLines s with
  | case1 => simp [Clean]
  | case2 rest ih =>
    intro l hl
    rcases List.mem_cons.mp hl with e | h
    · simp [e, Clean]
    · exact ih l h
  | case3 c rest _ hc ih =>
    intro l hl
    rcases List.mem_cons.mp hl with e | h
    · simp [e, Clean]
    · exact ih l h
  | case4 c rest _ hc hn ih => exact absurd hn (splitLines_ne_nil _)
  | case5 c rest _ hc l0 ls hs ih =>
    intro l hl
    rw [hs] at ih
    rcases List.mem_cons.mp hl with e | h
    · have := ih l0 (by simp)
      subst e
      refine ⟨?_, ?_⟩ <;> simp only [List.mem_cons, not_or] <;> refine ⟨?_, ?_⟩
      · exact fun e => hc (Or.inl e.symm)
      · exact this.1
      · exact fun e => hc (Or.inr e.symm)
      · exact this.2
    · exact ih l (List.mem_cons_of_mem _ h)

theorem splitLines_cons_clean (c : Nat) (r : Str) (hc : c ≠ 10 ∧ c ≠ 13) :
    splitLines (c :: r) = (c :: (splitLines r).head (splitLines_ne_nil r)) :: (splitLines r).tail := by
  have h13 : ∀ rest, c :: r = 13 :: 10 :: rest → False := by
    intro rest e; simp only [List.cons.injEq] at e; exact hc.2 e.1
  have hno : ¬(c = 10 ∨ c = 13) := by simp [hc.1, hc.2]
  rw [splitLines.eq_def]
  split
  · rename_i e; cases e
  · rename_i rest e; exact (h13 rest e).elim
  · rename_i c' rest' _ e
    simp only [List.cons.injEq] at e
    obtain ⟨rfl, rfl⟩ := e
    rw [if_neg hno]
    split
    · rename_i h; exact absurd h (splitLines_ne_nil _)
    · rename_i l ls h; simp [h]

theorem splitLines_append_lf (l r : Str) (h : Clean l) : splitLines (l ++ 10 :: r) = l :: splitLines r := by
  induction l with
  | nil => rw [List.nil_append, splitLines.eq_def]; simp
  | cons c l ih =>
    have hc : c ≠ 10 ∧ c ≠ 13 := ⟨fun e => h.1 (by simp [e]), fun e => h.2 (by simp [e])⟩
    have hr : Clean l := ⟨fun m => h.1 (List.mem_cons_of_mem _ m), fun m => h.2 (List.mem_cons_of_mem _ m)⟩
    rw [List.cons_append, splitLines_cons_clean _ _ hc]
    simp [ih hr]

theorem splitLines_crlf (r : Str) : splitLines (13 :: 10 :: r) = [] :: splitLines r := by
  rw [splitLines.eq_def]
  split
  · rename_i e; cases e
  · rename_i rest e
    simp only [List.cons.injEq, true_and] at e
    subst e; rfl
  · rename_i c rest hno e
    simp only [List.cons.injEq] at e
    obtain ⟨rfl, rfl⟩ := e
    exact (hno r rfl rfl).elim

theorem splitLines_cr (r : Str) (h : r.head? ≠ some 10) : splitLines (13 :: r) = [] :: splitLines r := by
  rw [splitLines.eq_def]
  split
  · rename_i e; cases e
  · rename_i rest e
    simp only [List.cons.injEq, true_and] at e
    subst e; simp at h
  · rename_i c rest _ e
    simp only [List.cons.injEq] at e
    obtain ⟨rfl, rfl⟩ := e
    simp

theorem splitLines_append_of_nil (l r : Str) (h : Clean l) (tl : List Str)
    (h0 : splitLines r = [] :: tl) : splitLines (l ++ r) = l :: tl := by
  induction l with
  | nil => simpa using h0
  | cons c l ih =>
    have hc : c ≠ 10 ∧ c ≠ 13 := ⟨fun e => h.1 (by simp [e]), fun e => h.2 (by simp [e])⟩
    have hr : Clean l := ⟨fun m => h.1 (List.mem_cons_of_mem _ m), fun m => h.2 (List.mem_cons_of_mem _ m)⟩
    rw [List.cons_append, splitLines_cons_clean _ _ hc]
    simp [ih hr]

/-- the three spellings of a line end -/
inductive Eol where | lf | cr | crlf
def Eol.chars : Eol → Str
  | .lf => [10] | .cr => [13] | .crlf => [13, 10]

theorem clean_head (l : Str) (h : Clean l) : l.head? ≠ some 10 := by
  cases l with
  | nil => simp
  | cons a t => simp only [List.head?_cons, ne_eq, Option.some.injEq]; exact fun e => h.1 (by simp [e])

theorem joinWith_head (ls : List Str) (h : ∀ l ∈ ls, Clean l) :
    (joinWith Eol.cr.chars ls).head? ≠ some 10 := by
  match ls with
  | [] => simp [joinWith]
  | [a] => simpa [joinWith] using clean_head a (h a (by simp))
  | a :: b :: rest =>
    have ha := h a (by simp)
    cases a with
    | nil => simp [joinWith, Eol.chars]
    | cons x t =>
      simp only [joinWith, List.cons_append, List.head?_cons, ne_eq, Option.some.injEq]
      exact fun e => ha.1 (by simp [e])

/-- A file written with LF, with CR or with CR LF line ends is the same list of lines. -/
theorem splitLines_join (e : Eol) (ls : List Str) (hne : ls ≠ []) (h : ∀ l ∈ ls, Clean l) :
    splitLines (joinWith e.chars ls) = ls := by
  match ls with
  | [] => exact absurd rfl hne
  | [a] => simpa [joinWith] using splitLines_clean_self a (h a (by simp))
  | a :: b :: rest =>
    have ih := splitLines_join e (b :: rest) (by simp) (fun l hl => h l (List.mem_cons_of_mem _ hl))
    have ha := h a (by simp)
    have hh := joinWith_head (b :: rest) (fun l hl => h l (List.mem_cons_of_mem _ hl))
    simp only [joinWith, List.append_assoc]
    apply splitLines_append_of_nil _ _ ha
    cases e with
    | lf =>
      show splitLines (10 :: joinWith _ (b :: rest)) = _
      rw [splitLines.eq_def]; simp [ih]
    | cr =>
      show splitLines (13 :: joinWith _ (b :: rest)) = _
      rw [splitLines_cr _ hh, ih]
    | crlf =>
      show splitLines (13 :: 10 :: joinWith _ (b :: rest)) = _
      rw [splitLines_crlf, ih]

/-- the same line with the text of its comment taken out -/
def emptyComment (l : Str) : Str := if 35 ∈ l then beforeHash l ++ [35] else l

theorem beforeHash_split (l : Str) (h : 35 ∈ l) : ∃ c, l = beforeHash l ++ 35 :: c ∧ 35 ∉ beforeHash l := by
  induction l with
  | nil => cases h
  | cons x t ih =>
    by_cases hx : x = 35
    · subst hx; exact ⟨t, by simp [beforeHash], by simp [beforeHash]⟩
    · have ht : 35 ∈ t := by
        rcases List.mem_cons.mp h with e | m
        · exact absurd e.symm hx
        · exact m
      obtain ⟨c, hc, hn⟩ := ih ht
      refine ⟨c, ?_, ?_⟩
      · simp only [beforeHash, List.takeWhile_cons, bne_iff_ne, ne_eq, hx, not_false_eq_true, ↓reduceIte, List.cons_append, List.cons.injEq, true_and]
        exact hc
      · simp only [beforeHash, List.takeWhile_cons, bne_iff_ne, ne_eq, hx, not_false_eq_true, ↓reduceIte, List.mem_cons, not_or]
        exact ⟨fun e => hx e.symm, hn⟩

theorem stepLine_emptyComment (st : PState) (l : Str) : stepLine st (emptyComment l) = stepLine st l := by
  unfold emptyComment
  split
  · rename_i h
    obtain ⟨c, hc, hn⟩ := beforeHash_split l h
    have : beforeHash l ++ [35] = beforeHash l ++ 35 :: [] := rfl
    rw [this]
    conv => rhs; rw [hc]
    exact comment_text_irrelevant st _ _ _ hn
  · rfl

/-- What the comments of a robots.txt say changes nothing: the rule sets are those of the file
with the text of every comment taken out. -/
theorem comments_carry_nothing (lines : List Str) :
    parseLines (lines.map emptyComment) = parseLines lines := by
  unfold parseLines
  have : ∀ st, (lines.map emptyComment).foldl stepLine st = lines.foldl stepLine st := by
    induction lines with
    | nil => intro st; rfl
    | cons l ls ih => intro st; simp only [List.map_cons, List.foldl_cons, stepLine_emptyComment]; exact ih _
  rw [this]

theorem clean_emptyComment (l : Str) (h : Clean l) : Clean (emptyComment l) := by
  unfold emptyComment
  split
  · have hs : ∀ x, x ∈ beforeHash l → x ∈ l := fun x hx => (List.takeWhile_sublist _).subset hx
    refine ⟨?_, ?_⟩ <;> simp only [List.mem_append, List.mem_singleton, not_or]
    · exact ⟨fun m => h.1 (hs _ m), by decide⟩
    · exact ⟨fun m => h.2 (hs _ m), by decide⟩
  · exact h

/-- A text without CR and LF is one line: no other character ends a line. -/
theorem line_ends_only_at_cr_lf (s : Str) (h10 : 10 ∉ s) (h13 : 13 ∉ s) : splitLines s = [s] :=
  splitLines_clean_self s ⟨h10, h13⟩

/-- The rule sets do not depend on how the line ends are spelled. -/
theorem line_end_spelling_irrelevant (e : Eol) (ls : List Str) (hne : ls ≠ []) (h : ∀ l ∈ ls, Clean l) :
    parseRobots (joinWith e.chars ls) = parseLines ls := by
  unfold parseRobots
  rw [splitLines_join e ls hne h]

/-- A line that holds only a comment changes nothing (it is no record boundary). -/
theorem comment_only_line_is_no_boundary (st : PState) (ws c : Str) (h : ∀ x ∈ ws, isPySpace x = true) :
    stepLine st (ws ++ 35 :: c) = st := by
  have h35 : 35 ∉ ws := fun m => by have := h 35 m; revert this; decide
  unfold stepLine
  simp only [strip_comment_line]
  have : lstrip ws = [] := by
    unfold lstrip
    induction ws with
    | nil => rfl
    | cons x t ih =>
      rw [List.dropWhile_cons, if_pos (h x (by simp))]
      exact ih (fun y hy => h y (List.mem_cons_of_mem _ hy)) (fun m => h35 (List.mem_cons_of_mem _ m))
  simp [this]

/-- Text level: rewrite the file with every comment emptied (any line-end spelling): same rule sets. -/
theorem comments_carry_nothing_text (e : Eol) (t : Str) :
    parseRobots (joinWith e.chars ((splitLines t).map emptyComment)) = parseRobots t := by
  rw [line_end_spelling_irrelevant e _ (by simpa using splitLines_ne_nil t)
    (fun l hl => by
      obtain ⟨l0, h0, rfl⟩ := List.mem_map.mp hl
      exact clean_emptyComment l0 (splitLines_lines_clean t l0 h0))]
  exact comments_carry_nothing _

/-! ### a byte order mark in front of the file

The directive pattern is searched anywhere in the line, which makes the parser indifferent to what stands in
front of the first directive as long as it is neither white space, a `#`, nor the first letter of a directive. -/

/-- a character no directive keyword starts with (in either case) -/
def NotInit (c : Nat) : Prop := asciiLower c ≠ 97 ∧ asciiLower c ≠ 100 ∧ asciiLower c ≠ 117 ∧ asciiLower c ≠ 115 ∧ asciiLower c ≠ 99

theorem matchAt_notInit (c : Nat) (s : Str) (h : NotInit c) : matchAt (c :: s) = none := by
  obtain ⟨h1, h2, h3, h4, h5⟩ := h
  simp [matchAt, keywords, lit, startsWith, List.findSome?, h1, h2, h3, h4, h5]

theorem findDirective_skip (p x : Str) (h : ∀ c ∈ p, NotInit c) : findDirective (p ++ x) = findDirective x := by
  induction p with
  | nil => rfl
  | cons c p ih =>
    simp only [List.cons_append, findDirective, matchAt_notInit c _ (h c (by simp))]
    exact ih (fun d hd => h d (List.mem_cons_of_mem _ hd))

theorem space_notInit (c : Nat) (h : isPySpace c = true) : NotInit c := by
  have hc : c ≤ 160 := by
    simp only [isPySpace, Bool.or_eq_true, Bool.and_eq_true, decide_eq_true_eq, beq_iff_eq] at h
    omega
  have hu : isAsciiUpper c = false := by
    simp only [isPySpace, Bool.or_eq_true, Bool.and_eq_true, decide_eq_true_eq, beq_iff_eq] at h
    simp only [isAsciiUpper, Bool.and_eq_false_iff, decide_eq_false_iff_not]
    omega
  simp only [isPySpace, Bool.or_eq_true, Bool.and_eq_true, decide_eq_true_eq, beq_iff_eq] at h
  simp only [NotInit, asciiLower, hu]
  simp only [Bool.false_eq_true, ↓reduceIte]
  omega

theorem space_ne_hash (c : Nat) (h : isPySpace c = true) : c ≠ 35 := by
  intro e; subst e; revert h; decide

/-- split a string into its leading white space and the rest -/
theorem lstrip_split (s : Str) : s = s.takeWhile isPySpace ++ lstrip s := by
  unfold lstrip; exact (List.takeWhile_append_dropWhile).symm

theorem lstrip_head (s : Str) : ∀ c, (lstrip s).head? = some c → isPySpace c = false := by
  intro c h
  unfold lstrip at h
  induction s with
  | nil => simp at h
  | cons a t ih =>
    rw [List.dropWhile_cons] at h
    split at h
    · exact ih h
    · rename_i ha; simp only [List.head?_cons, Option.some.injEq] at h; subst h; simpa using ha

theorem rstrip_nil : rstrip [] = [] := rfl

theorem rstrip_cons_nonspace (c : Nat) (m : Str) (hc : isPySpace c = false) : rstrip (c :: m) = c :: rstrip m := by
  simpa using rstrip_append_stop [] m c hc

theorem rstrip_all_space (w : Str) (h : ∀ c ∈ w, isPySpace c = true) : rstrip w = [] := by
  unfold rstrip
  have : ∀ l : Str, (∀ c ∈ l, isPySpace c = true) → l.dropWhile isPySpace = [] := by
    intro l hl
    induction l with
    | nil => rfl
    | cons a t ih =>
      rw [List.dropWhile_cons, if_pos (hl a (by simp))]
      exact ih (fun c hc => hl c (List.mem_cons_of_mem _ hc))
  simp [this w.reverse (fun c hc => h c (List.mem_reverse.mp hc))]

theorem takeWhile_space_all (s : Str) : ∀ c ∈ s.takeWhile isPySpace, isPySpace c = true := by
  induction s with
  | nil => intro c hc; cases hc
  | cons a t ih =>
    intro c hc
    rw [List.takeWhile_cons] at hc
    split at hc
    · rename_i ha
      rcases List.mem_cons.mp hc with e | m
      · subst e; exact ha
      · exact ih c m
    · cases hc

theorem lstrip_all_space (w : Str) (h : ∀ c ∈ w, isPySpace c = true) (x : Str) : lstrip (w ++ x) = lstrip x := by
  unfold lstrip
  induction w with
  | nil => rfl
  | cons a t ih =>
    rw [List.cons_append, List.dropWhile_cons, if_pos (h a (by simp))]
    exact ih (fun c hc => h c (List.mem_cons_of_mem _ hc))

theorem lstrip_of_head_nonspace (c : Nat) (m : Str) (hc : isPySpace c = false) : lstrip (c :: m) = c :: m := by
  simp [lstrip, hc]

/-- the two strips commute -/
theorem lstrip_rstrip_comm (s : Str) : lstrip (rstrip s) = rstrip (lstrip s) := by
  have hs := lstrip_split s
  generalize hw : s.takeWhile isPySpace = w at hs
  have hwall : ∀ c ∈ w, isPySpace c = true := by rw [← hw]; exact takeWhile_space_all s
  cases hl : lstrip s with
  | nil =>
    rw [hl, List.append_nil] at hs
    rw [hs, rstrip_all_space w hwall]; rfl
  | cons c m =>
    have hc : isPySpace c = false := lstrip_head s c (by rw [hl]; rfl)
    rw [hl] at hs
    conv => lhs; rw [hs, rstrip_append_stop w m c hc, lstrip_all_space w hwall, lstrip_of_head_nonspace c _ hc]
    rw [rstrip_cons_nonspace c m hc]

theorem beforeHash_lstrip (s : Str) : beforeHash (lstrip s) = lstrip (beforeHash s) := by
  unfold beforeHash lstrip
  induction s with
  | nil => rfl
  | cons a t ih =>
    by_cases ha : isPySpace a = true
    · have h35 : a ≠ 35 := space_ne_hash a ha
      simp only [List.dropWhile_cons, ha, ↓reduceIte, List.takeWhile_cons, bne_iff_ne, ne_eq, h35, not_false_eq_true]
      exact ih
    · have ha' : isPySpace a = false := by simpa using ha
      by_cases h35 : a = 35
      · subst h35; simp [ha']
      · simp [ha', h35]

theorem lstrip_idem (s : Str) : lstrip (lstrip s) = lstrip s := by
  cases h : lstrip s with
  | nil => rfl
  | cons c m => exact lstrip_of_head_nonspace c m (lstrip_head s c (by rw [h]; rfl))

/-- the line as the parser looks at it = the leading-white-space-free form of
`rstrip (beforeHash (rstrip line))` -/
theorem body_eq (l : Str) : strip (beforeHash (strip l)) = lstrip (rstrip (beforeHash (rstrip l))) := by
  unfold strip
  rw [← lstrip_rstrip_comm l, beforeHash_lstrip, lstrip_idem, ← lstrip_rstrip_comm]

/-- what a non-blank, non-comment line body does to the state -/
def stepBody (st : PState) (b : Str) : PState :=
  match findDirective b with
  | none => st
  | some (f, d) =>
    let d := scrub d
    match f with
    | .userAgent =>
      if st.prevUA then
        { st with cur := st.cur.map fun r => if d.isEmpty then r else { r with names := r.names ++ [d] } }
      else ⟨closeCur st, some ⟨if d.isEmpty then [] else [d], []⟩, true⟩
    | .allow => { st with prevUA := false, cur := st.cur.map fun r => { r with rules := r.rules ++ [(true, d)] } }
    | .disallow => { st with prevUA := false, cur := st.cur.map fun r => { r with rules := r.rules ++ [(false, d)] } }
    | .sitemap => { st with prevUA := false }
    | .crawlDelay => { st with prevUA := false }

theorem stepLine_eq (st : PState) (line : Str) :
    stepLine st line =
      if (strip line).head? = some 35 then st
      else if (strip (beforeHash (strip line))).isEmpty then ⟨closeCur st, none, false⟩
      else stepBody st (strip (beforeHash (strip line))) := by
  unfold stepLine stepBody
  rfl

theorem stepBody_nil (st : PState) : stepBody st [] = st := by
  simp [stepBody, findDirective]

theorem lstrip_eq_nil (x : Str) (h : lstrip x = []) : ∀ c ∈ x, isPySpace c = true := by
  unfold lstrip at h
  induction x with
  | nil => intro c hc; cases hc
  | cons a t ih =>
    rw [List.dropWhile_cons] at h
    split at h
    · rename_i ha
      intro c hc
      rcases List.mem_cons.mp hc with e | m
      · subst e; exact ha
      · exact ih h c m
    · cases h

def Junk (c : Nat) : Prop := isPySpace c = false ∧ c ≠ 35 ∧ NotInit c

theorem rstrip_junk_append (p x : Str) (hp : ∀ c ∈ p, Junk c) (hne : p ≠ []) : rstrip (p ++ x) = p ++ rstrip x := by
  induction p with
  | nil => exact absurd rfl hne
  | cons a t ih =>
    have ha := (hp a (by simp)).1
    cases t with
    | nil => simpa using rstrip_cons_nonspace a x ha
    | cons b t' =>
      have := ih (fun c hc => hp c (List.mem_cons_of_mem _ hc)) (by simp)
      rw [List.cons_append, rstrip_cons_nonspace a _ ha, this]; rfl

theorem beforeHash_junk_append (p x : Str) (hp : ∀ c ∈ p, Junk c) : beforeHash (p ++ x) = p ++ beforeHash x := by
  unfold beforeHash
  induction p with
  | nil => rfl
  | cons a t ih =>
    have ha := (hp a (by simp)).2.1
    simp only [List.cons_append, List.takeWhile_cons, bne_iff_ne, ne_eq, ha, not_false_eq_true, ↓reduceIte, List.cons.injEq, true_and]
    exact ih (fun c hc => hp c (List.mem_cons_of_mem _ hc))

/-- Characters in front of the FIRST line that are neither white space, nor `#`, nor the first letter of a
directive (a UTF-8 byte order mark read as ISO-8859-1 is three of them) change nothing. -/
theorem leading_junk_first_line (p l : Str) (hp : ∀ c ∈ p, Junk c) :
    stepLine PState.init (p ++ l) = stepLine PState.init l := by
  cases p with
  | nil => rfl
  | cons a t =>
    have hne : a :: t ≠ [] := by simp
    have ha := hp a (by simp)
    -- left side
    have hstrip : strip (a :: t ++ l) = a :: t ++ rstrip l := by
      unfold strip
      rw [List.cons_append, lstrip_of_head_nonspace a _ ha.1, ← List.cons_append, rstrip_junk_append _ _ hp hne]
    have hbody : strip (beforeHash (strip (a :: t ++ l))) = a :: t ++ rstrip (beforeHash (rstrip l)) := by
      rw [hstrip, beforeHash_junk_append _ _ hp]
      unfold strip
      rw [List.cons_append, lstrip_of_head_nonspace a _ ha.1, ← List.cons_append, rstrip_junk_append _ _ hp hne]
    generalize hR : rstrip (beforeHash (rstrip l)) = R at hbody
    have hL : stepLine PState.init (a :: t ++ l) = stepBody PState.init (lstrip R) := by
      rw [stepLine_eq, hbody, hstrip]
      have h1 : (a :: t ++ rstrip l).head? ≠ some 35 := by
        simp only [List.cons_append, List.head?_cons, ne_eq, Option.some.injEq]; exact ha.2.1
      have h2 : (a :: t ++ R).isEmpty = false := by simp
      rw [if_neg h1, h2]
      simp only [Bool.false_eq_true, ↓reduceIte]
      unfold stepBody
      rw [findDirective_skip (a :: t) R (fun c hc => (hp c hc).2.2)]
      conv => lhs; rw [lstrip_split R, findDirective_skip _ _ (fun c hc => space_notInit c (takeWhile_space_all R c hc))]
    rw [hL, stepLine_eq, body_eq, hR]
    by_cases hc : (strip l).head? = some 35
    · rw [if_pos hc]
      -- a comment-only line: R is empty
      have h0 : beforeHash (lstrip (rstrip l)) = [] := by
        have : strip l = lstrip (rstrip l) := by unfold strip; exact (lstrip_rstrip_comm l).symm
        rw [this] at hc
        cases hx : lstrip (rstrip l) with
        | nil => simp [beforeHash]
        | cons c m =>
          rw [hx] at hc; simp only [List.head?_cons, Option.some.injEq] at hc; subst hc
          simp [beforeHash]
      rw [beforeHash_lstrip] at h0
      have hall := lstrip_eq_nil _ h0
      have : R = [] := by rw [← hR]; exact rstrip_all_space _ hall
      rw [this]; exact stepBody_nil _
    · rw [if_neg hc]
      by_cases he : (lstrip R).isEmpty = true
      · rw [if_pos he]
        have : lstrip R = [] := by simpa using he
        rw [this, stepBody_nil]; rfl
      · rw [if_neg he]

theorem bom_is_junk : ∀ c ∈ ([239, 187, 191] : Str), Junk c := by
  intro c hc
  simp only [List.mem_cons, List.mem_nil_iff, or_false] at hc
  rcases hc with rfl | rfl | rfl <;> (refine ⟨by decide, by decide, ?_⟩; unfold NotInit; decide)

/-- A UTF-8 byte order mark in front of a robots.txt changes none of its rule sets. -/
theorem bom_irrelevant (l : Str) (ls : List Str) :
    parseLines (([239, 187, 191] ++ l) :: ls) = parseLines (l :: ls) := by
  unfold parseLines
  simp only [List.foldl_cons]
  rw [leading_junk_first_line _ _ bom_is_junk]

/-- text level: the first line of `BOM ++ text` is `BOM ++ first line of text` -/
theorem splitLines_junk_prefix (p t : Str) (hp : ∀ c ∈ p, c ≠ 10 ∧ c ≠ 13) :
    splitLines (p ++ t) = (p ++ (splitLines t).head (splitLines_ne_nil t)) :: (splitLines t).tail := by
  induction p with
  | nil => simp
  | cons c p ih =>
    rw [List.cons_append, splitLines_cons_clean c _ (hp c (by simp))]
    simp [ih (fun d hd => hp d (List.mem_cons_of_mem _ hd))]

/-- A UTF-8 byte order mark in front of a robots.txt changes none of its rule sets (text level). -/
theorem bom_irrelevant_text (t : Str) : parseRobots ([239, 187, 191] ++ t) = parseRobots t := by
  unfold parseRobots
  rw [splitLines_junk_prefix _ _ (by intro c hc; simp only [List.mem_cons, List.mem_nil_iff, or_false] at hc; rcases hc with rfl | rfl | rfl <;> decide)]
  rw [bom_irrelevant]
  congr 1
  exact List.cons_head_tail (splitLines_ne_nil t)

/-! ### the theorems are about something -/

/-- a comment ending in NEL between the agent line and its rule: the rule stays in the record -/
example : parseRobots (lit "User-agent: *\n# \x85\nDisallow: /x") = [⟨[[42]], [(false, lit "/x")]⟩] := by decide +kernel
/-- a form feed inside a line ends nothing -/
example : splitLines (lit "a\x0cb\x0bc\x1cd\x85e") = [lit "a\x0cb\x0bc\x1cd\x85e"] := by decide +kernel
example : splitLines (lit "a\r\nb\rc\n") = [lit "a", lit "b", lit "c", []] := by decide +kernel
example : parseRobots (lit "\xef\xbb\xbfUser-agent: *\nDisallow: /x") = [⟨[[42]], [(false, lit "/x")]⟩] := by decide +kernel
/-- a blank line does end the record: the rule after it belongs to nobody -/
example : parseRobots (lit "User-agent: *\n\nDisallow: /x") = [] := by decide +kernel
example : emptyComment (lit "Disallow: /x # note") = lit "Disallow: /x #" := by decide +kernel

end Wpull.Robots
