/-
C17 — Each FTP command is one line, and replies are read whole.
Property theorems over the model `Wpull.Ftp` (helper lemmas first; the
property statements are the `theorem`s in the section "Property theorems").
-/
import Wpull.Ftp
namespace Wpull.Ftp
open Wpull

/-! ## helper lemmas -/

theorem utf8SE1_no_crlf (c : Nat) (a : Bytes) (h : utf8SE1 c = .ok a)
    (h13 : c ≠ 13) (h10 : c ≠ 10) : 13 ∉ a ∧ 10 ∉ a := by
  unfold utf8SE1 at h
  split at h
  · cases h; simp; omega
  split at h
  · cases h; simp; omega
  split at h
  · cases h; simp; omega
  split at h
  · cases h
  split at h
  · cases h; simp; omega
  · cases h; simp; omega

theorem utf8SE_no_crlf : ∀ (s : Str) (a : Bytes), utf8SE s = .ok a →
    13 ∉ s → 10 ∉ s → 13 ∉ a ∧ 10 ∉ a
  | [], a, h, _, _ => by simp [utf8SE] at h; subst h; simp
  | c :: t, a, h, h13, h10 => by
    unfold utf8SE at h
    split at h
    · cases h
    · rename_i x hx
      split at h
      · cases h
      · rename_i y hy
        cases h
        have hc := utf8SE1_no_crlf c x hx (by intro e; apply h13; simp [e]) (by intro e; apply h10; simp [e])
        have ht := utf8SE_no_crlf t y hy (by intro e; apply h13; simp [e]) (by intro e; apply h10; simp [e])
        simp [hc.1, hc.2, ht.1, ht.2]

theorem utf8SE_append : ∀ (s t : Str) (a : Bytes), utf8SE (s ++ t) = .ok a →
    ∃ x y, utf8SE s = .ok x ∧ utf8SE t = .ok y ∧ a = x ++ y
  | [], t, a, h => ⟨[], a, by simp [utf8SE], by simpa using h, by simp⟩
  | c :: s, t, a, h => by
    simp only [List.cons_append] at h
    unfold utf8SE at h
    split at h
    · cases h
    · rename_i x hx
      split at h
      · cases h
      · rename_i y hy
        cases h
        obtain ⟨x', y', hs, ht, e⟩ := utf8SE_append s t y hy
        refine ⟨x ++ x', y', ?_, ht, by simp [e]⟩
        unfold utf8SE
        simp [hx, hs]

theorem findLF_some {b : Bytes} {i : Nat} (h : findLF b = some i) :
    i < b.length ∧ b[i]? = some 10 ∧ 10 ∉ b.take i := by
  induction b generalizing i with
  | nil => simp [findLF] at h
  | cons c t ih =>
    unfold findLF at h
    split at h
    · cases h; simp_all
    · cases hf : findLF t with
      | none => simp [hf] at h
      | some j =>
        simp [hf] at h; subst h
        have := ih hf
        refine ⟨by simp; omega, by simpa using this.2.1, ?_⟩
        simp only [List.take_succ_cons, List.mem_cons, not_or]
        exact ⟨by omega, this.2.2⟩

theorem findLF_none {b : Bytes} (h : findLF b = none) : 10 ∉ b := by
  induction b with
  | nil => simp
  | cons c t ih =>
    unfold findLF at h
    split at h
    · cases h
    · cases hf : findLF t with
      | none => simp only [List.mem_cons, not_or]; exact ⟨by omega, ih hf⟩
      | some j => simp [hf] at h

theorem findLF_append_none {a b : Bytes} (h : findLF a = none) :
    findLF (a ++ b) = (findLF b).map (· + a.length) := by
  induction a with
  | nil => simp only [List.nil_append, List.length_nil]; cases findLF b <;> simp
  | cons c t ih =>
    unfold findLF at h
    split at h
    · cases h
    · rename_i hc
      cases hf : findLF t with
      | some j => simp [hf] at h
      | none =>
        simp only [List.cons_append, findLF, hc, if_false, ih hf, List.length_cons]
        cases findLF b <;> simp; omega

theorem findLF_append_some {a b : Bytes} {i : Nat} (h : findLF a = some i) :
    findLF (a ++ b) = some i := by
  induction a generalizing i with
  | nil => simp [findLF] at h
  | cons c t ih =>
    unfold findLF at h
    split at h
    · cases h; simp [findLF, *]
    · rename_i hc
      cases hf : findLF t with
      | none => simp [hf] at h
      | some j =>
        simp [hf] at h; subst h
        simp [findLF, hc, ih hf]

/-- `readline` over segments = `readline` over the concatenation. -/
theorem readlineSegs_eq (acc : Bytes) (segs : List Bytes) :
    (readlineSegs acc segs).1 = acc ++ (splitLF segs.flatten).1 ∧
    (readlineSegs acc segs).2.flatten = (splitLF segs.flatten).2 := by
  induction segs generalizing acc with
  | nil => simp [readlineSegs, splitLF, findLF]
  | cons s rest ih =>
    unfold readlineSegs
    cases hs : findLF s with
    | some i =>
      have hb := findLF_some hs
      simp only [List.flatten_cons, splitLF, findLF_append_some hs]
      have hle : i + 1 ≤ s.length := by omega
      constructor
      · simp [List.take_append_of_le_length hle]
      · simp [List.drop_append_of_le_length hle]
    | none =>
      have := ih (acc ++ s)
      simp only [List.flatten_cons, splitLF, findLF_append_none hs]
      simp only [splitLF] at this
      cases hr : findLF rest.flatten with
      | none => simp [hr] at this ⊢; exact this
      | some j =>
        simp only [hr, Option.map_some] at this ⊢
        constructor
        · rw [this.1]
          have : j + s.length + 1 = s.length + (j + 1) := by omega
          rw [this, List.append_assoc, List.take_length_add_append]
        · rw [this.2]
          have : j + s.length + 1 = s.length + (j + 1) := by omega
          rw [this, List.drop_length_add_append]

/-- result of the segment-level reader, mapped to the flat representation -/
def ReplyResult.flat : ReplyResult (List Bytes) → ReplyResult Bytes
  | .ok r rest seen => .ok r rest.flatten seen
  | .err e => .err e
  | .fuel => .fuel

theorem readReplyLoop_flat (fuel : Nat) (r : Reply) (seen : List Bytes) (segs : List Bytes) :
    (readReplyLoop (readlineSegs []) fuel r seen segs).flat
      = readReplyLoop splitLF fuel r seen segs.flatten := by
  induction fuel generalizing r seen segs with
  | zero => simp [readReplyLoop, ReplyResult.flat]
  | succ n ih =>
    have h := readlineSegs_eq [] segs
    simp only [List.nil_append] at h
    unfold readReplyLoop
    simp only [h.1]
    split
    · rfl
    · split
      · rfl
      · split
        · rfl
        · split
          · simp [ReplyResult.flat, h.2]
          · rw [ih, h.2]

theorem chunksAux_flatten (n : Nat) (hn : 0 < n) (f : Nat) (b : Bytes) (hf : b.length ≤ f) :
    (chunksAux n f b).flatten = b := by
  induction f generalizing b with
  | zero =>
    have : b = [] := List.length_eq_zero_iff.mp (by omega)
    simp [chunksAux, this]
  | succ f ih =>
    unfold chunksAux
    split
    · rename_i h
      rcases h with h | h
      · omega
      · simp [h]
    · rename_i h
      have hb : b ≠ [] := fun e => h (Or.inr e)
      have : 0 < b.length := List.length_pos_iff.mpr hb
      simp only [List.flatten_cons]
      rw [ih (b.drop n) (by simp; omega)]
      exact List.take_append_drop n b

theorem chunks_flatten (n : Nat) (hn : 0 < n) (b : Bytes) : (chunks n b).flatten = b :=
  chunksAux_flatten n hn b.length b (Nat.le_refl _)

theorem flatMap_chunks_flatten (segs : List Bytes) :
    (segs.flatMap (chunks 4096)).flatten = segs.flatten := by
  induction segs with
  | nil => simp
  | cons s t ih => simp [List.flatMap_cons, ih, chunks_flatten 4096 (by omega) s]

/-! ## Property theorems -/

/-- **C17 (a)** Whatever command name and argument (hence whatever URL path, user
name or password, after whatever percent-decoding): if `Command.to_bytes`
returns bytes at all, they are exactly one line — no CR or LF before the final
CRLF.  A URL therefore cannot inject a second command. -/
theorem command_single_line (name arg : Str) (b : Bytes)
    (h : commandToBytes name arg = .ok b) :
    ∃ l, b = l ++ [13, 10] ∧ 13 ∉ l ∧ 10 ∉ l := by
  unfold commandToBytes at h
  simp only at h
  split at h
  · cases h
  · rename_i hc
    simp only [Bool.or_eq_true, List.contains_iff_mem, not_or] at hc
    obtain ⟨x, y, hx, hy, e⟩ := utf8SE_append _ _ _ h
    have hy' : y = [13, 10] := by
      simp [utf8SE, utf8SE1] at hy; exact hy.symm
    have := utf8SE_no_crlf _ x hx (by simpa using hc.1) (by simpa using hc.2)
    exact ⟨x, by rw [e, hy'], this.1, this.2⟩

/-- the refusal branch is exactly "the command text holds a CR or LF" (so the
totalisation is visible, not hidden) -/
theorem command_refused_iff (name arg : Str) :
    commandToBytes name arg = .error .ProtocolError ↔
      (13 ∈ name ++ [32] ++ arg ∨ 10 ∈ name ++ [32] ++ arg) ∨
      utf8SE (name ++ [32] ++ arg ++ [13, 10]) = .error .ProtocolError := by
  unfold commandToBytes
  simp only [Bool.or_eq_true, List.contains_iff_mem]
  constructor
  · intro h
    split at h
    · left; assumption
    · right; exact h
  · intro h
    split
    · rfl
    · rcases h with h | h
      · contradiction
      · exact h

/-- **C17 (b)** Replies are assembled identically for every segmentation of the
control stream: reading over any list of segments gives the same reply, the
same notified lines and leaves the same unread bytes as reading over the
concatenated stream. -/
theorem reply_segmentation_independent (fuel : Nat) (segs : List Bytes) :
    (readReplySegs fuel segs).flat = readReplyFlat fuel segs.flatten := by
  unfold readReplySegs readReplyFlat
  exact readReplyLoop_flat fuel _ _ segs

/-- two segmentations of the same byte stream cannot be told apart -/
theorem reply_same_for_all_segmentations (fuel : Nat) (s₁ s₂ : List Bytes)
    (h : s₁.flatten = s₂.flatten) :
    (readReplySegs fuel s₁).flat = (readReplySegs fuel s₂).flat := by
  rw [reply_segmentation_independent, reply_segmentation_independent, h]

/-- **C17 (b′)** A reply is complete only at a line that carries a code:
the reader never returns a reply without a code, and every line it consumed
ended with LF (a stream that ends inside a line is a `NetworkError`). -/
theorem reply_complete_has_code {S : Type} (rl : S → Bytes × S) (fuel : Nat) (r0 : Reply)
    (seen0 : List Bytes) (s : S) (r : Reply) (rest : S) (seen : List Bytes)
    (h : readReplyLoop rl fuel r0 seen0 s = .ok r rest seen)
    (h0 : ∀ l ∈ seen0, l.getLast? = some 10) :
    r.code.isSome ∧ ∀ l ∈ seen, l.getLast? = some 10 := by
  induction fuel generalizing r0 seen0 s with
  | zero => simp [readReplyLoop] at h
  | succ n ih =>
    unfold readReplyLoop at h
    simp only at h
    split at h
    · cases h
    · split at h
      · cases h
      · rename_i hlast
        split at h
        · cases h
        · rename_i r' hr'
          have hs : ∀ l ∈ seen0 ++ [(rl s).1], l.getLast? = some 10 := by
            intro l hl
            simp only [List.mem_append, List.mem_singleton] at hl
            rcases hl with hl | hl
            · exact h0 l hl
            · subst hl; simpa using hlast
          split at h
          · rename_i hcode
            cases h
            exact ⟨hcode, hs⟩
          · exact ih _ _ _ h hs

/-- a line piece of the form `ddd<space>text` (RFC 959: the only kind of line that ends a reply) -/
def codeSpace (p : Bytes) : Bool :=
  match digits3? p with
  | some (_, 32 :: _) => true
  | _ => false

theorem parseLine_code {r r' : Reply} {p : Bytes} (h : parseLine r p = .ok r')
    (hn : r.code = none) (hs : r'.code.isSome) : codeSpace p = true := by
  unfold parseLine at h
  unfold codeSpace
  rcases hd : digits3? p with _ | ⟨n, t⟩
  · simp [hd, hn] at h
    subst h
    simp [hn] at hs
  · rcases t with _ | ⟨c, t⟩
    · simp [hd, hn] at h
      subst h
      simp [hn] at hs
    · by_cases hc : c = 32
      · subst hc; rfl
      · by_cases hc2 : c = 45
        · subst hc2
          simp [hd, hn] at h
          subst h
          simp [hn] at hs
        · simp [hd, hn] at h
          subst h
          simp [hn] at hs
          split at hs <;> simp_all

theorem foldlM_parseLine_code : ∀ (ps : List Bytes) (r r' : Reply),
    ps.foldlM parseLine r = .ok r' → r.code = none → r'.code.isSome →
    ∃ p ∈ ps, codeSpace p = true := by
  intro ps
  induction ps with
  | nil =>
    intro r r' h hn hs
    simp [List.foldlM, pure, Except.pure] at h
    subst h; simp [hn] at hs
  | cons p ps ih =>
    intro r r' h hn hs
    simp only [List.foldlM_cons, bind, Except.bind] at h
    rcases hp : parseLine r p with e | r1
    · simp [hp] at h
    · simp only [hp] at h
      by_cases h1 : r1.code.isSome
      · exact ⟨p, by simp, parseLine_code hp hn h1⟩
      · have hn1 : r1.code = none := by simpa using h1
        obtain ⟨q, hq, hc⟩ := ih r1 r' h hn1 hs
        exact ⟨q, by simp [hq], hc⟩

/-- **C17 (b″)** A reply ends only at a line holding a piece `ddd<space>…`: free text of a multi-line
reply that merely begins with digits (`2260 of 5000 bytes`) never ends it.  The last line the reader
consumed contains such a piece (a bare CR inside a line counts as a line end, as `bytes.splitlines` does). -/
theorem reply_ends_at_code_line {S : Type} (rl : S → Bytes × S) (fuel : Nat) (r0 : Reply)
    (seen0 : List Bytes) (s : S) (r : Reply) (rest : S) (seen : List Bytes)
    (h : readReplyLoop rl fuel r0 seen0 s = .ok r rest seen) (h0 : r0.code = none) :
    ∃ l, seen.getLast? = some l ∧ ∃ p ∈ splitlinesB l, codeSpace p = true := by
  induction fuel generalizing r0 seen0 s with
  | zero => simp [readReplyLoop] at h
  | succ n ih =>
    unfold readReplyLoop at h
    simp only at h
    split at h
    · cases h
    · split at h
      · cases h
      · split at h
        · cases h
        · rename_i r' hr'
          split at h
          · rename_i hcode
            cases h
            refine ⟨(rl s).1, by simp, ?_⟩
            exact foldlM_parseLine_code _ _ _ hr' h0 hcode
          · rename_i hcode
            exact ih _ _ _ h (by simpa using hcode)

/-- **C17 (c)** A transfer is reported complete only after the data connection
was closed by the server *and* the server confirmed with 226 on the control
connection; the body is then exactly the bytes of the data stream, whatever
their segmentation. -/
theorem transfer_complete_requires_close_and_226 (dataSegs : List Bytes) (dataEnd : DataEnd)
    (fuel : Nat) (ctrl : List Bytes) (body : Bytes) (reply : Reply)
    (h : readStream dataSegs dataEnd fuel ctrl = .complete body reply) :
    dataEnd = .closed ∧ reply.code = some 226 ∧ body = dataSegs.flatten := by
  unfold readStream at h
  cases dataEnd with
  | stillOpen => simp at h
  | reset => simp at h
  | closed =>
    simp only at h
    split at h
    · cases h
    · cases h
    · split at h
      · rename_i hc
        cases h
        exact ⟨rfl, hc, flatMap_chunks_flatten dataSegs⟩
      · cases h

/-- a data connection that is reset (not closed) never yields a completed transfer, whatever the
server says on the control connection -/
theorem reset_is_never_complete (dataSegs : List Bytes) (fuel : Nat) (ctrl : List Bytes) :
    readStream dataSegs .reset fuel ctrl = .err .NetworkError := rfl

/-! ## Non-vacuity: concrete instances meeting the hypotheses -/

example : commandToBytes (lit "RETR") (lit "/a b") = .ok (lit "RETR /a b\r\n") := by decide
example : commandToBytes (lit "RETR") (lit "/a\r\nDELE x") = .error .ProtocolError := by decide
example : (readReplySegs 10 [lit "220-hi\r\n22", lit "0 ok\r\nrest"]).flat
    = .ok ⟨some 220, some (lit "hi\r\nok")⟩ (lit "rest") [lit "220-hi\r\n", lit "220 ok\r\n"] := by decide
example : readStream [lit "ab", lit "c"] .closed 10 [lit "226 done\r\n"]
    = .complete (lit "abc") ⟨some 226, some (lit "done")⟩ := by decide

end Wpull.Ftp

namespace Wpull.Ftp

/-! ## Several fetches on one client -/

theorem runFetches_own_aux (fs : List Fetch) (h : ∀ f ∈ fs, f.Settled) (pooled : Option (List Nat))
    (hp : pooled = none ∨ pooled = some []) :
    ∀ p ∈ (runFetches pooled fs).zip fs, p.1.2 = p.2.replies.take p.2.read := by
  induction fs generalizing pooled with
  | nil => intro p hp'; simp [runFetches] at hp'
  | cons f fs ih =>
    intro p hp'
    have hw : pooled.getD [] ++ f.replies = f.replies := by
      rcases hp with rfl | rfl <;> simp
    simp only [runFetches, List.zip_cons_cons, List.mem_cons] at hp'
    rcases hp' with rfl | hp'
    · simp [hw]
    · refine ih (fun g hg => h g (List.mem_cons_of_mem _ hg)) _ ?_ p hp'
      unfold leave
      cases he : f.exit with
      | raised => left; rfl
      | normal =>
        right
        have := h f (List.mem_cons_self) he
        simp [hw, List.drop_eq_nil_of_le this]

/-- **C17 (d)** On one client, whatever sequence of fetches is made and however each of them ends (completed, or
left by any exception at any point of its conversation): every session reads only replies to its OWN commands —
the first reply it reads answers its first command.  (Sessions left without an exception have read all their
replies; sessions left by an exception lose their control connection.) -/
theorem each_fetch_reads_its_own_replies (fs : List Fetch) (h : ∀ f ∈ fs, f.Settled) :
    ∀ p ∈ (runFetches none fs).zip fs, p.1.2 = p.2.replies.take p.2.read :=
  runFetches_own_aux fs h none (Or.inl rfl)

/-- and the next fetch opens a fresh control connection exactly when the previous one was left by an exception -/
theorem fresh_iff_previous_raised (f g : Fetch) (fs : List Fetch) (pooled : Option (List Nat)) :
    ((runFetches pooled (f :: g :: fs))[1]?).map Prod.fst = some (decide (f.exit = .raised)) := by
  simp only [runFetches, leave]
  cases f.exit <;> simp

/-- why both halves are needed: a session that is left WITHOUT an exception while the server still owes it a reply
(150 read, 226 not yet) hands that reply to the next session as the answer to its first command -/
theorem normal_exit_with_reply_owed_counterexample :
    runFetches none [⟨[150, 226], 1, .normal⟩, ⟨[213, 200], 2, .normal⟩] = [(true, [150]), (false, [226, 213])] := by
  decide

example : (⟨[150, 226], 2, .normal⟩ : Fetch).Settled ∧ (⟨[150, 226], 1, .raised⟩ : Fetch).Settled := by
  constructor <;> simp [Fetch.Settled]

end Wpull.Ftp

namespace Wpull.Ftp

/-- whatever six numbers a server writes into its PASV reply: an address that is accepted has a port that IS a port
(at most 65535; `connect()` raises OverflowError, not a network error, for anything larger) and host numbers that are
octets -/
theorem pasv_address_in_range (ns : List Nat) (host : List Nat) (port : Nat)
    (h : parseAddress ns = .ok (host, port)) : port ≤ 65535 ∧ ∀ o ∈ host, o ≤ 255 := by
  unfold parseAddress at h
  split at h
  · rename_i h1 h2 h3 h4 p1 p2
    split at h
    · cases h
    · rename_i hn
      simp only [List.any_cons, List.any_nil, Bool.or_false, Bool.or_eq_true, decide_eq_true_eq, not_or, Nat.not_lt] at hn
      injection h with h
      injection h with hh hp
      subst hh hp
      obtain ⟨a1, a2, a3, a4, a5, a6⟩ := hn
      refine ⟨?_, ?_⟩
      · have : p1 <<< 8 ||| p2 < 2 ^ 16 := by
          apply Nat.or_lt_two_pow
          · rw [Nat.shiftLeft_eq]; omega
          · omega
        omega
      · intro o ho
        simp only [List.mem_cons, List.not_mem_nil, or_false] at ho
        rcases ho with rfl | rfl | rfl | rfl <;> assumption
  · cases h

example : parseAddress [10, 0, 0, 1, 7, 228] = .ok ([10, 0, 0, 1], 2020) := by decide
example : parseAddress [10, 0, 0, 1, 999, 999] = .error .ValueError := by decide

end Wpull.Ftp
