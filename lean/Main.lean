import Wpull
open Wpull

/-- engine name ↦ handler of the remaining tokens (one line per engine) -/
def engines : List (String × (List String → String)) := [
  ("ftp", Wpull.Ftp.handle),
  ("pipeline", Wpull.Pipeline.handle)
]

def handle (line : String) : String :=
  match line.trimAscii.toString.splitOn " " with
  | "ping" :: rest => "pong " ++ " ".intercalate rest
  | eng :: rest =>
    match engines.lookup eng with
    | some h => h rest
    | none => "bad-engine"
  | [] => "bad-op"

partial def loop (h : IO.FS.Stream) (out : IO.FS.Stream) : IO Unit := do
  let line ← h.getLine
  if line.isEmpty then return ()
  out.putStrLn (handle line)
  loop h out

def main : IO Unit := do
  let out ← IO.getStdout
  loop (← IO.getStdin) out
