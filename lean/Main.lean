import Wpull
open Wpull

/-- engine name ↦ handler of the remaining tokens (one line per engine) -/
def engines : List (String × (List String → String)) := [
  ("ftp", Wpull.Ftp.handle),
  ("crawl", Wpull.Crawl.handle),
  ("path", Wpull.Path.handle),
  ("robots", Wpull.Robots.handle),
  ("decomp", Wpull.Decomp.handle),
  ("table", Wpull.Table.handle),
  ("pool", Wpull.Pool.handle),
  ("url", Wpull.Url.handle),
  ("filter", Wpull.Filter.handle),
  ("warc", Wpull.Warc.handle),
  ("request", Wpull.Request.handle),
  ("warcwrite", Wpull.WarcWrite.handle),
  ("http", Wpull.HttpWire.handle),
  ("pipeline", Wpull.Pipeline.handle)
]

def handle (line : String) : String :=
  match line.trimAscii.toString.splitOn " " with
  | "ping" :: rest => "pong " ++ " ".intercalate rest
  | eng :: rest =>
    match engines.lookup eng with
    | some h => h rest
    | none => "bad-engine"
  | [] => "bad-op"

partial def loop (h : IO.FS.Stream) (out : IO.FS.Stream) : IO Unit := do
  let line ← h.getLine
  if line.isEmpty then return ()
  out.putStrLn (handle line)
  loop h out

def main : IO Unit := do
  let out ← IO.getStdout
  loop (← IO.getStdin) out
