import Proofs.C17
import Proofs.Lemmas.Warc
import Proofs.Lemmas.WarcHistory
import Proofs.C05
import Proofs.C07
