import Proofs.C17
import Proofs.C13
