import Proofs.C17
import Proofs.C11
import Proofs.Lemmas.Ipv4
import Proofs.Lemmas.Flatten
import Proofs.C10
