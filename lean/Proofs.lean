import Proofs.C17
import Proofs.C18
import Proofs.C16
