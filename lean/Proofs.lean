import Proofs.C17
import Proofs.C01
import Proofs.C03
import Proofs.C15
import Proofs.C19
import Proofs.C20
import Proofs.C14
import Proofs.C12
