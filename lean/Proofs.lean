import Proofs.C17
