import Proofs.C17
import Proofs.C08
import Proofs.C04
import Proofs.C08Trunc
