import Wpull.Py.Basic
import Wpull.Proto
import Wpull.Ftp
import Wpull.FtpDriver
import Wpull.HttpWirePy
import Wpull.HttpWire
import Wpull.HttpWireDriver
import Wpull.HttpWireSpec
