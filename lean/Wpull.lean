import Wpull.Py.Basic
import Wpull.Proto
import Wpull.Ftp
import Wpull.FtpDriver
import Wpull.Pipeline
import Wpull.PipelineDriver
