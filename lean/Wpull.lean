import Wpull.Py.Basic
import Wpull.Proto
import Wpull.Ftp
import Wpull.FtpDriver
import Wpull.Crawl
import Wpull.CrawlDriver
import Wpull.Path
import Wpull.PathDriver
