import Wpull.Py.Basic
import Wpull.Proto
import Wpull.Ftp
import Wpull.FtpDriver
import Wpull.Py.Str
import Wpull.Url
import Wpull.UrlDriver
