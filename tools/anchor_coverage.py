#!/usr/bin/env python3
"""tools/anchor_coverage.py Cxx [tier]  — runs the property's check with line coverage of wpull switched on and
reports, for the files the property is anchored in (properties.jsonl), which functions the check's real-code runs
never enter or enter only partly.  A blind-spot map for strengthening generators; not part of any verdict.
Writes coverage/Cxx.json (summary) and prints the unexecuted functions."""
import json
import os
import shutil
import subprocess
import sys
import types

VERIF = os.path.dirname(os.path.dirname(os.path.abspath(__file__)))
REPO = os.environ.get('WPULL_REPO', '/repo')


def code_lines(path):
    """{qualname: set(lines)} of executable lines per function (module level under '<module>')"""
    src = open(path).read()
    top = compile(src, path, 'exec')
    out = {}

    def walk(code):
        lines = {l for (_s, _e, l) in code.co_lines() if l is not None}
        # a def's own line belongs to the enclosing scope; docstring-only noise is harmless
        out.setdefault(code.co_qualname if code.co_name != '<module>' else '<module>', set()).update(lines)
        for c in code.co_consts:
            if isinstance(c, types.CodeType):
                walk(c)
    walk(top)
    return out


def main():
    pid = sys.argv[1]
    tier = sys.argv[2] if len(sys.argv) > 2 else 'quick'
    prop = next(json.loads(l) for l in open(os.path.join(VERIF, 'properties.jsonl')) if json.loads(l)['id'] == pid)
    files = [f for f in prop['anchors']['files'] if f.endswith('.py')]
    covdir = '/work/cov/%s' % pid
    shutil.rmtree(covdir, ignore_errors=True)
    os.makedirs(covdir)
    env = dict(os.environ, VERIF_COV=covdir)
    p = subprocess.run(['./check', pid, tier], cwd=VERIF, env=env, stdout=subprocess.PIPE, stderr=subprocess.DEVNULL, text=True)
    verdict = [l for l in p.stdout.split('\n') if l.startswith(pid + ' ')]
    hit = {}
    for n in os.listdir(covdir):
        for l in open(os.path.join(covdir, n)):
            f, _, ln = l.strip().rpartition(':')
            if ln.isdigit():
                hit.setdefault(f, set()).add(int(ln))
    summary = {'property': pid, 'tier': tier, 'check': verdict[-1] if verdict else p.stdout[-200:], 'files': {}}
    for f in files:
        rel = f[len('wpull/'):] if f.startswith('wpull/') else f
        path = os.path.join(REPO, f)
        if not os.path.exists(path):
            continue
        funcs = code_lines(path)
        h = hit.get(rel, set())
        tot = set().union(*funcs.values())
        never, partly = [], []
        for q, ls in sorted(funcs.items(), key=lambda kv: min(kv[1]) if kv[1] else 0):
            if q == '<module>' or not ls:
                continue
            body = ls - {min(ls)}          # the def line itself runs at import
            if not body:
                continue
            got = body & h
            if not got:
                never.append('%s (line %d)' % (q, min(ls)))
            elif len(got) < 0.6 * len(body):
                partly.append('%s (%d/%d lines)' % (q, len(got), len(body)))
        summary['files'][f] = {'lines_hit': len(tot & h), 'lines': len(tot), 'never_entered': never, 'partly': partly}
    os.makedirs(os.path.join(VERIF, 'coverage'), exist_ok=True)
    json.dump(summary, open(os.path.join(VERIF, 'coverage', pid + '.json'), 'w'), indent=1)
    shutil.rmtree(covdir, ignore_errors=True)
    print(summary['check'])
    for f, d in summary['files'].items():
        print('%s: %d/%d lines' % (f, d['lines_hit'], d['lines']))
        for x in d['never_entered']:
            print('   never: ' + x)
        for x in d['partly']:
            print('   partly: ' + x)


if __name__ == '__main__':
    main()
