#!/usr/bin/env python3
"""tools/merge_engine.py <branch>: merge an engine branch into the current branch.
Main.lean's `engines` list is merged by union of lines, MANIFEST.json is regenerated."""
import re
import subprocess
import sys
import os
HERE = os.path.dirname(os.path.dirname(os.path.abspath(__file__)))
br = sys.argv[1]


def git(*a, check=True):
    return subprocess.run(['git', '-C', HERE] + list(a), stdout=subprocess.PIPE, stderr=subprocess.STDOUT, text=True, check=check).stdout


def engines_of(text):
    return re.findall(r'^\s*\("(\w+)",\s*([\w.]+)\),?\s*$', text, re.M)


if git('status', '--porcelain', '--untracked-files=no').strip():
    print('working tree is dirty: commit first'); sys.exit(2)
ours = git('show', 'HEAD:lean/Main.lean')
theirs = git('show', br + ':lean/Main.lean')
print(git('merge', '--no-commit', br, check=False)[-1500:])
eng = engines_of(ours)
for e in engines_of(theirs):
    if e not in eng:
        eng.append(e)
body = ',\n'.join('  ("%s", %s)' % e for e in eng)
new = re.sub(r'(def engines : List \(String × \(List String → String\)\) := \[\n)(.*?)(\n\])', lambda m: m.group(1) + body + m.group(3), ours, flags=re.S)
open(os.path.join(HERE, 'lean/Main.lean'), 'w').write(new)
# union-merged import files may still need a check for duplicates
for f in ('lean/Wpull.lean', 'lean/Proofs.lean'):
    p = os.path.join(HERE, f)
    lines = []
    for l in open(p).read().split('\n'):
        if l.startswith(('<<<<<<<', '=======', '>>>>>>>')):
            continue
        if l.strip() and l in lines:
            continue
        lines.append(l)
    open(p, 'w').write('\n'.join(lines).rstrip('\n') + '\n')
git('checkout', '--ours', 'MANIFEST.json', check=False)
subprocess.run(['python3', os.path.join(HERE, 'tools/mkmanifest.py')], check=True)
git('add', '-A')
print(git('status', '--short')[:2000])
left = [l for l in git('diff', '--name-only', '--diff-filter=U').split('\n') if l]
if left:
    print('UNRESOLVED:', left)
    sys.exit(1)
