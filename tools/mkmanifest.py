#!/usr/bin/env python3
"""Assemble MANIFEST.json from manifest.d/*.json (one file per claimed property)
and manifest.d/_not_applicable.json.  Run after editing either."""
import glob
import json
import os
HERE = os.path.dirname(os.path.dirname(os.path.abspath(__file__)))
checks = []
for p in sorted(glob.glob(os.path.join(HERE, 'manifest.d', 'C*.json'))):
    c = json.load(open(p))
    pid = c['property_id']
    c.setdefault('quick_cmd', './check %s quick' % pid)
    c.setdefault('thorough_cmd', './check %s thorough' % pid)
    c.setdefault('evidence_file', 'evidence/%s.json' % pid)
    c.setdefault('replay_cmd_template', './check %s --replay {path}' % pid)
    checks.append(c)
claimed = {c['property_id'] for c in checks}
na_path = os.path.join(HERE, 'manifest.d', '_not_applicable.json')
na = json.load(open(na_path)) if os.path.exists(na_path) else {}
allp = [json.loads(l)['id'] for l in open(os.path.join(HERE, 'properties.jsonl'))]
not_applicable = []
for pid in allp:
    if pid in claimed:
        continue
    not_applicable.append({'property_id': pid,
                           'reason': na.get(pid, 'not yet claimed: the engine for this property is not built yet (DESIGN.md section 8 build order); no check is registered, nothing is asserted')})
hooks = json.load(open(os.path.join(HERE, 'manifest.d', '_hooks.json')))
m = {
    'version': 1,
    'setup_cmd': 'cd lean && lake build',
    'hooks': hooks,
    'engines': sorted({(c.get('engine') or '') for c in checks} - {''}) and [
        {'name': e, 'path': 'lean/Wpull/%s.lean' % e,
         'serves_properties': [c['property_id'] for c in checks if c.get('engine') == e],
         'kind_free_text': 'Lean 4 model + proofs (lean/Proofs), differential harness harness/engines'}
        for e in sorted({c.get('engine') for c in checks if c.get('engine')})],
    'checks': checks,
    'notes': 'Technique: machine-checked proof in Lean 4 over hand-written models, tied to /repo by a correspondence check on every run (DESIGN.md). '
             'KNOWN_FINDINGS.txt lists recorded findings and repaired defects.',
    'not_applicable': not_applicable,
}
json.dump(m, open(os.path.join(HERE, 'MANIFEST.json'), 'w'), indent=1)
print('MANIFEST.json: %d checks, %d not claimed' % (len(checks), len(not_applicable)))
