#!/bin/sh
# tools/try_seeded.sh <dir with patch.diff> <PROPERTY> [more properties...]
# Applies the change to /repo, runs the quick checks, always reverts.  Prints one summary line per check.
d=$1; shift
cd "$(dirname "$0")/.."
if [ -n "$(git -C /repo status --porcelain --untracked-files=no)" ]; then echo "/repo is dirty"; exit 2; fi
git -C /repo apply "$d/patch.diff" || { echo "patch does not apply"; exit 2; }
trap 'git -C /repo checkout -- . ; git -C /repo clean -fdq wpull >/dev/null 2>&1' EXIT INT TERM
for p in "$@"; do
  out=$(./check $p ${TIER:-quick} 2>/dev/null | grep -E "^(VIOLATION|INFRA|C[0-9]+ |  broken)" | cut -c1-260)
  echo "$out" | sed "s|^|[$p] |"
done
