#!/usr/bin/env python3
"""Regenerates the generated count table in DESIGN.md (between S1B markers): per property the obligations by
strength (lean/obligations/Cxx.json), fixes / findings (KNOWN_FINDINGS.txt) and seeded changes (seeded/*/meta.json)."""
import glob
import json
import os
import re
HERE = os.path.dirname(os.path.dirname(os.path.abspath(__file__)))
kf = open(os.path.join(HERE, 'KNOWN_FINDINGS.txt')).read().split('\n')
rows = ['| id | obligations (full / partial / counterexample / other) | theorems | `fixed:` | `finding:` | seeded changes caught / total |', '|---|---|---|---|---|---|']
tot = [0, 0, 0, 0, 0]
for i in range(1, 21):
    pid = 'C%02d' % i
    ob = json.load(open(os.path.join(HERE, 'lean', 'obligations', pid + '.json')))
    by = {}
    for o in ob:
        by[o.get('strength', 'full')] = by.get(o.get('strength', 'full'), 0) + 1
    other = sum(v for k, v in by.items() if k not in ('full', 'partial', 'counterexample'))
    fixed = sum(1 for l in kf if l.startswith('fixed:') and 'property=%s ' % pid in l)
    finding = [re.search(r'kind=(\S+) where=(\S+)', l) for l in kf if l.startswith('finding:') and 'property=%s ' % pid in l]
    seeded = [json.load(open(p)) for p in sorted(glob.glob(os.path.join(HERE, 'seeded', pid + '-*', 'meta.json')))]
    caught = sum(1 for m in seeded if any(c.get('caught') for c in m.get('checks', {}).values()))
    names = ', '.join(o['theorem'].split('.')[-1] for o in ob)
    rows.append('| %s | %d / %d / %d / %d | %s | %d | %s | %d / %d |' % (
        pid, by.get('full', 0), by.get('partial', 0), by.get('counterexample', 0), other, names, fixed,
        ', '.join('%s/%s' % (m.group(1), m.group(2)) for m in finding if m) or '-', caught, len(seeded)))
    tot[0] += len(ob); tot[1] += fixed; tot[2] += len(finding); tot[3] += caught; tot[4] += len(seeded)
rows.append('| all | %d obligations | | %d | %d | %d / %d |' % tuple(tot))
text = '\n'.join(rows)
path = os.path.join(HERE, 'DESIGN.md')
s = open(path).read()
b, e = '<!-- S1B-BEGIN -->', '<!-- S1B-END -->'
if b in s:
    s = re.sub(re.escape(b) + '.*?' + re.escape(e), lambda m: b + '\n' + text + '\n' + e, s, flags=re.S)
    open(path, 'w').write(s)
else:
    print('markers missing')
print(text)
