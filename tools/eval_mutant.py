#!/usr/bin/env python3
"""tools/eval_mutant.py <worktree> <i> [--props C01,C02] [--tier quick]

Confirms an independently written breaking change (<worktree>/out/<i>/{patch.diff,demo.py,meta.json}) in that
scratch worktree — baseline tests still 111 passed with the change, demo fails with it and passes without —
then runs the registered checks against the changed tree (WPULL_REPO=<worktree>) and stores everything as
/verif/seeded/<PROPERTY>-<i>/ (patch.diff, demo.py, meta.json).  The worktree is left clean."""
import json
import os
import re
import shutil
import subprocess
import sys

VERIF = os.path.dirname(os.path.dirname(os.path.abspath(__file__)))


def sh(cmd, cwd=None, timeout=3600, env=None):
    p = subprocess.run(cmd, shell=True, cwd=cwd, stdout=subprocess.PIPE, stderr=subprocess.STDOUT, text=True,
                       timeout=timeout, env=env)
    return p.returncode, p.stdout


def main():
    wt = sys.argv[1].rstrip('/')
    i = sys.argv[2]
    props = None
    tier = 'quick'
    offset = 0
    for k, a in enumerate(sys.argv):
        if a == '--offset':
            offset = int(sys.argv[k + 1])
        if a == '--props':
            props = sys.argv[k + 1].split(',')
        if a == '--tier':
            tier = sys.argv[k + 1]
    d = os.path.join(wt, 'out', i)
    meta = json.load(open(os.path.join(d, 'meta.json')))
    pid = meta.get('property') or os.path.basename(wt)
    pid = re.search(r'C\d+', pid).group(0)
    props = props or [pid]
    res = {'property': pid, 'summary': meta.get('summary'), 'what_it_needs_to_manifest': meta.get('what_it_needs_to_manifest'),
           'files_touched': meta.get('files_touched'), 'confirmed': {}, 'checks': {}}
    sh('git checkout -q -- .', cwd=wt)
    env = dict(os.environ, PYTHONHASHSEED='0')
    rc0, out0 = sh('cd /tmp && /venv/bin/python %s/demo.py' % d, env=env, timeout=600)
    res['confirmed']['demo_without_change'] = 'pass' if rc0 == 0 else 'FAIL(rc=%d)' % rc0
    rc, out = sh('git apply %s/patch.diff' % d, cwd=wt)
    if rc != 0:
        res['confirmed']['apply'] = 'patch does not apply: ' + out[-200:]
        print(json.dumps(res, indent=1))
        return 1
    try:
        rc1, out1 = sh('cd /tmp && /venv/bin/python %s/demo.py' % d, env=env, timeout=600)
        res['confirmed']['demo_with_change'] = 'fails' if rc1 != 0 else 'PASSES(rc=0)'
        res['confirmed']['demo_tail'] = out1.strip().split('\n')[-3:]
        rct, outt = sh('/venv/bin/python -m pytest -q -p no:cacheprovider --timeout=900 --continue-on-collection-errors 2>&1 | tail -1', cwd=wt)
        res['confirmed']['baseline_tests_with_change'] = outt.strip()
        for p in props:
            e = dict(env, WPULL_REPO=wt)
            rcc, outc = sh('./check %s %s 2>/dev/null' % (p, tier), cwd=VERIF, env=e, timeout=7200)
            lines = [l for l in outc.split('\n') if re.match(r'^(VIOLATION|INFRA|C\d+ |  broken|KNOWN)', l)]
            caught = any(l.startswith('VIOLATION') for l in lines)
            replays = []
            for l in lines:
                m = re.search(r'replay=(\S+)', l)
                if m and os.path.exists(os.path.join(VERIF, m.group(1))):
                    try:
                        r = json.load(open(os.path.join(VERIF, m.group(1))))
                        replays.append({'kind': r.get('kind'), 'where': r.get('where'), 'type': r.get('type'),
                                        'detail': str(r.get('detail', r.get('streams', '')))[:300]})
                    except Exception:
                        pass
            res['checks'][p] = {'tier': tier, 'exit': rcc, 'caught': caught,
                                'lines': [l[:240] for l in lines if not l.startswith('KNOWN')], 'replays': replays[:4]}
    finally:
        sh('git checkout -q -- .', cwd=wt)
        sh('git clean -fdq wpull', cwd=wt)
    sid = str(int(i) + offset)
    out_dir = os.path.join(VERIF, 'seeded', '%s-%s' % (pid, sid))
    os.makedirs(out_dir, exist_ok=True)
    shutil.copy(os.path.join(d, 'patch.diff'), out_dir)
    shutil.copy(os.path.join(d, 'demo.py'), out_dir)
    res['what_was_run'] = ('in the scratch worktree: demo.py without the change (must pass), git apply patch.diff, demo.py (must fail), '
                           'baseline pytest (111 passed), then `WPULL_REPO=<worktree> ./check <id> %s` for %s; worktree restored' % (tier, props))
    json.dump(res, open(os.path.join(out_dir, 'meta.json'), 'w'), indent=1)
    c = res['confirmed']
    print(json.dumps({'id': '%s-%s' % (pid, sid), 'demo_ok': c.get('demo_without_change') == 'pass' and c.get('demo_with_change') == 'fails',
                      'tests': c.get('baseline_tests_with_change', '')[:40],
                      'caught': {p: (c2['caught'], [r.get('kind') or r.get('type') for r in c2['replays']][:3]) for p, c2 in res['checks'].items()}}))
    return 0


if __name__ == '__main__':
    sys.exit(main())
