#!/bin/sh
# tools/runall.sh [tier] : run every claimed check, one line each
tier=${1:-quick}
cd "$(dirname "$0")/.."
for p in $(python3 -c "import json;print(' '.join(c['property_id'] for c in json.load(open('MANIFEST.json'))['checks']))"); do
  ./check $p $tier 2>&1 | grep -E "^(VIOLATION|KNOWN-FINDING|INFRA|C[0-9]+ )" | cut -c1-200
done
