#!/usr/bin/env python3
"""Prepare a round of seeded-change prompts: tools/mk_mutant_round.py <prev_round_dir> <new_round_dir> <focus_file>
Rewrites each prompt of the previous round for the new round directory, with the list of changes already tried
(one line per seeded/<id>/meta.json summary) and the focus paragraph of this round.  The prompts carry only the
property text and that list - nothing else from /verif."""
import sys, os, re, json, glob
prev, new, focus_file = sys.argv[1:4]
focus = open(focus_file).read().strip()
here = os.path.dirname(os.path.dirname(os.path.abspath(__file__)))
for p in sorted(glob.glob(os.path.join(prev, 'prompts', 'C*.txt'))):
    pid = os.path.basename(p)[:-4]
    s = open(p).read().replace(prev, new)
    metas = sorted(glob.glob(os.path.join(here, 'seeded', pid + '-*', 'meta.json')), key=lambda f: int(re.search(r'-(\d+)/', f).group(1)))
    tried = []
    for m in metas:
        d = json.load(open(m))
        tried.append(' - ' + ' '.join(d.get('summary', '').split())[:260])
    head, _, rest = s.partition('Other people already tried')
    _, _, tail = rest.partition('\nYour task:')
    s = (head + 'Other people already tried the following changes for this property (%d so far); yours must be DIFFERENT in '
         'code site and in the way the property breaks. %s\n' % (len(tried), focus) + '\n'.join(tried) + '\n\nYour task:' + tail)
    os.makedirs(os.path.join(new, 'prompts'), exist_ok=True)
    open(os.path.join(new, 'prompts', pid + '.txt'), 'w').write(s)
    print(pid, len(tried))
