#!/usr/bin/env python3
"""Regenerate the seeded-changes table of DESIGN.md (between the S4 markers) from seeded/*/meta.json."""
import glob
import json
import os
import re
HERE = os.path.dirname(os.path.dirname(os.path.abspath(__file__)))
rows = []
for p in sorted(glob.glob(os.path.join(HERE, 'seeded', '*', 'meta.json'))):
    d = json.load(open(p))
    sid = os.path.basename(os.path.dirname(p))
    checks = d.get('checks', {})
    caught = []
    for pid, c in checks.items():
        if c.get('caught'):
            kinds = sorted({(r.get('kind') or r.get('type') or '?') + ('/' + r['where'] if r.get('where') else '') for r in c.get('replays', [])})
            nf = any('no-failing-input-found' in l for l in c.get('lines', []))
            caught.append('%s %s: %s%s' % (pid, c.get('tier', 'quick'), ', '.join(kinds)[:110] or 'violation', ' (no failing input: obligation/correspondence named)' if nf and not kinds else ''))
    summ = (d.get('summary') or '').replace('|', '/').replace('\n', ' ')
    needs = (d.get('what_it_needs_to_manifest') or '').replace('|', '/').replace('\n', ' ')
    hist = d.get('history', '')
    rows.append('| %s | %s | %s | %s%s |' % (sid, summ[:230], needs[:200], '; '.join(caught) if caught else '**missed**', (' — ' + hist) if hist else ''))
table = ['| id | change (files: see seeded/<id>/patch.diff) | needs, to manifest | caught by |', '|---|---|---|---|'] + rows
text = '\n'.join(table)
path = os.path.join(HERE, 'DESIGN.md')
s = open(path).read()
begin, end = '<!-- S4-BEGIN -->', '<!-- S4-END -->'
if begin in s:
    s = re.sub(re.escape(begin) + '.*?' + re.escape(end), lambda m: begin + '\n' + text + '\n' + end, s, flags=re.S)
else:
    print('markers missing')
open(path, 'w').write(s)
print(len(rows), 'rows;', sum(1 for r in rows if '**missed**' in r), 'missed')
