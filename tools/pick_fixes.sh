#!/bin/sh
# tools/pick_fixes.sh <name>: cherry-pick the "fix:" commits of /work/<name>-repo that /repo lacks,
# rewrite their ids in KNOWN_FINDINGS.txt
set -e
n=$1
cd /repo
git fetch -q /work/$n-repo HEAD
for c in $(git log --reverse --format=%h d6ea904..FETCH_HEAD); do
  subj=$(git log -1 --format=%s $c)
  case "$subj" in fix:*) ;; *) continue;; esac
  if git log --format=%s | grep -qxF "$subj"; then echo "already have: $subj"; continue; fi
  git cherry-pick $c >/dev/null 2>&1 || { echo "CONFLICT picking $c $subj"; git cherry-pick --abort; exit 1; }
  new=$(git log -1 --format=%h)
  sed -i "s/\b$c\b/$new/g" /verif/KNOWN_FINDINGS.txt
  echo "picked $c -> $new $subj"
done
